//go:build verif

package provider

// C17 — the sweeping provider advertises every key to its closest peers, on schedule.
//
// A simulated swarm (peer IDs from a fixed pool, Kademlia identifiers = sha256 of the raw
// peer-ID / multihash bytes, XOR metric computed by this file) stands behind the two
// interfaces the provider talks to: KadClosestPeersRouter (answers GetClosestPeers with the
// K = 20 XOR-nearest members of the current swarm) and pb.MessageSender (records every
// ADD_PROVIDER: key, recipient, payload, virtual time, swarm epoch, outcome). Everything runs
// in a synctest bubble; the oracle is evaluated on the recorded history afterwards.
//
// Oracle clauses (DESIGN.md §4 C17):
//   provide-bound      (1) a key handed to StartProviding/ProvideOnce while online reaches every
//                          healthy peer among its r nearest within 30 virtual minutes
//   payload            (1) every ADD_PROVIDER carries exactly self + the current addresses
//   reprovide-window   (2) every window of interval + maxDelay + slack inside a key's kept period
//                          contains a complete advertisement to its then-nearest healthy r peers
//   catch-up           (2) after an outage longer than the interval every kept key is completely
//                          re-advertised within the catch-up bound of coming back; a window that meets a
//                          shorter outage ends at the catch-up bound after it at the earliest; keys handed
//                          over during an outage and still queued at its end (no Offline transition) are
//                          advertised within catch-up + provide bound; keys started during an outage are
//                          kept (window oracle) from its end on
//   stop               (3) no ADD_PROVIDER for a key later than slack after StopProviding
//   restart-resume     (4) keys queued at Close are advertised after a resumed restart
//   recipient-reported (6) every recipient was reported by the router before
//
//
// Stable signatures of the defects known on the unrepaired tree (DESIGN.md §6):
//   alloc/not-r-nearest                    #7  a key is advertised, but not to all healthy peers among
//                                              its r nearest (region allocation compares wrong bits)
//   reprovide/gap-exceeds-bound            #11 a kept key gets no ADD_PROVIDER at all during a window
//                                              (keys reprovided every second cycle)
//   …/not-advertised/provide-once-key,     #18 a key queued by ProvideOnce (not in the keystore) is
//   restart/not-resumed/provide-once-key       dropped when the reprovide of its region empties the
//                                              provide queue under the region's prefix
//   reprovide/gap-exceeds-bound/           #27 a kept key skips a cycle: inside the window a StartProviding
//   start-after-first-cycle-inside-window      call of other keys replaced its scheduled prefix by a shorter
//                                              one (observed by comparing the schedule before and after the
//                                              call): a new key outside every scheduled prefix is scheduled
//                                              under the average prefix length, which unschedules the longer
//                                              prefixes below it; when the slot of the new prefix has passed in
//                                              this cycle and theirs had not, their keys wait for the next cycle
//                                              (needs regions reprovided before, i.e. prefixes of mixed length;
//                                              witnesses: unit outage, thorough tier, seed 1, cases 195 and 595)
//   reprovide/gap-exceeds-bound/           #28 (labelled only when both were observed white-box: a StartProviding
//   schedule-grown-from-one-region             call grew the schedule from one region, and later the cursor sat
//                                              re-armed on that region at its own slot with several regions
//                                              scheduled) the schedule held a single region, so the
//                                              timer had been armed for its slot up to a full interval before,
//                                              when a StartProviding added regions whose slots of this cycle
//                                              had passed: at the alarm handleReprovide tells late regions by
//                                              the time the timer has been running, takes every added region
//                                              for late (queued, reprovided at once) and leaves the cursor
//                                              where it is, cycle after cycle; the reschedule after such a
//                                              catch-up moves the cursor to a later region, the regions in
//                                              between skip their slot of this cycle
//                                              (witnesses: unit outage, thorough tier, seed 1, cases 373, 685)
// A miss that follows an exploration stopped at the provider's cap of 64 lookups is documented
// behaviour (bounded exploration, heals in the next cycle): counted as an observation, not judged;
// the generator keeps clustered swarms <= 600 peers and growth <= x4 per step to stay below the cap.
//
// False-alarm guards: worker configurations always leave >= 1 worker usable by each class and are
// given slow / dead recipients only together with >= 8 connections per worker ("workers keep up");
// obligations count healthy recipients only, dead recipients only with r >= 5 (< 80 % failing per
// region); unreachable recipients fail after a dial timeout, never instantly (the provider retries a
// failed region at once); swarm churn, address changes and the final Close happen at rest points
// only (nothing in flight); Close is started only after the initial prefix-length measurement and
// never while a lookup sleeps under the connectivity checker's mutex (synctest would stall).
// approxPrefixLen draws its probe keys from crypto/rand: replays repeat the scenario, not the exact
// initial prefix length.

import (
	"context"
	"crypto/sha256"
	"encoding/binary"
	"errors"
	"fmt"
	"math"
	"os"
	"regexp"
	"runtime"
	"runtime/debug"
	"sort"
	"strings"
	"sync"
	"sync/atomic"
	"testing"
	"testing/synctest"
	"time"

	ds "github.com/ipfs/go-datastore"
	"github.com/ipfs/go-datastore/namespace"
	dssync "github.com/ipfs/go-datastore/sync"
	"github.com/ipfs/go-libdht/kad/key/bitstr"
	logging "github.com/ipfs/go-log/v2"
	kb "github.com/libp2p/go-libp2p-kbucket"
	"github.com/libp2p/go-libp2p/core/peer"
	ma "github.com/multiformats/go-multiaddr"
	mh "github.com/multiformats/go-multihash"
	"go.uber.org/zap"
	"go.uber.org/zap/zapcore"

	"github.com/libp2p/go-libp2p-kad-dht/internal/verif/vh"
	pb "github.com/libp2p/go-libp2p-kad-dht/pb"
	"github.com/libp2p/go-libp2p-kad-dht/provider/internal/keyspace"
	"github.com/libp2p/go-libp2p-kad-dht/provider/internal/queue"
	"github.com/libp2p/go-libp2p-kad-dht/provider/keystore"
)

const (
	vC17K             = 20 // bucket size of the simulated closest-peers router
	vC17Interval      = time.Hour
	vC17MaxDelay      = 5 * time.Minute
	vC17ProvideBound  = 30 * time.Minute
	vC17CatchUpBound  = 30 * time.Minute
	vC17SlackBase     = 2 * time.Minute
	vC17BatchCap      = 5 * time.Minute        // measured batch time never widens the slack by more
	vC17DeadFailLat   = 2 * time.Second        // an unreachable recipient fails after a dial timeout
	vC17OutageFailLat = 200 * time.Millisecond // lookups and RPCs fail quickly while the network is down
	vC17CapSig        = "explore/lookup-cap"   // label of misses that follow a capped exploration (observation, no verdict)
	vC17MaxClustered  = 600                    // largest clustered swarm (70 % under one prefix) generated
	vC17PoolPeers     = 12000
	vC17PoolKeys      = 6000
)

// ---- pool of peers and keys (independent key arithmetic: sha256 of the raw bytes) -----------

type vC17Node struct {
	raw string // peer.ID / multihash bytes
	kad [32]byte
	hi  uint64
}

type vC17PoolT struct {
	peers   []vC17Node
	keys    []vC17Node
	peerIdx map[string]int32
	keyIdx  map[string]int32
	selfOK  bool
	selfMsg string
}

var (
	vC17PoolOnce sync.Once
	vC17PoolV    *vC17PoolT
)

func vC17MkNode(raw string) vC17Node {
	k := sha256.Sum256([]byte(raw))
	return vC17Node{raw: raw, kad: k, hi: binary.BigEndian.Uint64(k[:8])}
}

func vC17Pool() *vC17PoolT {
	vC17PoolOnce.Do(func() {
		p := &vC17PoolT{peerIdx: map[string]int32{}, keyIdx: map[string]int32{}}
		for i := 0; i < vC17PoolPeers; i++ {
			h, _ := mh.Sum([]byte(fmt.Sprintf("vC17-peer-%d", i)), mh.SHA2_256, -1)
			p.peers = append(p.peers, vC17MkNode(string(h)))
			p.peerIdx[string(h)] = int32(i)
		}
		for i := 0; i < vC17PoolKeys; i++ {
			h, _ := mh.Sum([]byte(fmt.Sprintf("vC17-key-%d", i)), mh.SHA2_256, -1)
			p.keys = append(p.keys, vC17MkNode(string(h)))
			p.keyIdx[string(h)] = int32(i)
		}
		// cross-check of the monitor's own metric against the library (once per process)
		p.selfOK = true
		members := make([]int32, 700)
		for i := range members {
			members[i] = int32(i * 7)
		}
		ids := make([]peer.ID, len(members))
		for i, m := range members {
			ids[i] = peer.ID(p.peers[m].raw)
		}
		for j := 0; j < 25 && p.selfOK; j++ {
			k := p.keys[j*11]
			want := kb.SortClosestPeers(ids, kb.ConvertKey(k.raw))[:vC17K]
			got := vC17Nearest(p.peers, members, &k.kad, vC17K)
			for i := range want {
				if string(want[i]) != p.peers[got[i]].raw {
					p.selfOK = false
					p.selfMsg = fmt.Sprintf("key %d: library rank %d is %x, monitor says %x", j, i, want[i], p.peers[got[i]].raw)
					break
				}
			}
		}
		vC17PoolV = p
	})
	return vC17PoolV
}

// vC17Less reports whether a is strictly nearer to t than b (XOR metric on the full 256 bits).
func vC17Less(a, b, t *[32]byte) bool {
	for i := 0; i < 32; i++ {
		x, y := a[i]^t[i], b[i]^t[i]
		if x != y {
			return x < y
		}
	}
	return false
}

// vC17Nearest returns the n members nearest to t, nearest first.
func vC17Nearest(nodes []vC17Node, members []int32, t *[32]byte, n int) []int32 {
	type ent struct {
		d uint64
		i int32
	}
	thi := binary.BigEndian.Uint64(t[:8])
	top := make([]ent, 0, n+1)
	for _, m := range members {
		d := nodes[m].hi ^ thi
		if len(top) == n && d > top[n-1].d {
			continue
		}
		pos := len(top)
		for pos > 0 && (d < top[pos-1].d || (d == top[pos-1].d && vC17Less(&nodes[m].kad, &nodes[top[pos-1].i].kad, t))) {
			pos--
		}
		if pos >= n {
			continue
		}
		top = append(top, ent{})
		copy(top[pos+1:], top[pos:])
		top[pos] = ent{d, m}
		if len(top) > n {
			top = top[:n]
		}
	}
	out := make([]int32, len(top))
	for i, e := range top {
		out[i] = e.i
	}
	return out
}

func vC17Bits(k *[32]byte, n int) string {
	var sb strings.Builder
	for i := 0; i < n; i++ {
		if k[i/8]&(0x80>>(i%8)) != 0 {
			sb.WriteByte('1')
		} else {
			sb.WriteByte('0')
		}
	}
	return sb.String()
}

// ---- simulation -----------------------------------------------------------------------------

type vC17Send struct {
	t     time.Duration
	peer  int32
	epoch int32
	ok    bool
	flaky bool // failed although the peer is healthy (transient error, see vC17Sim.flakyPct)
	path  byte // 'P' sent by a provide batch, 'R' by a reprovide batch, 0 not determined (only determined for stopped keys)
}

// vC17Job identifies the sequence of RPCs one sender goroutine of the provider makes to one peer
// (every sender goroutine of sendProviderRecords owns one message struct and reuses it).
type vC17Job struct {
	m *pb.Message
	p int32
}

type vC17Epoch struct {
	start   time.Duration
	members []int32
}

type vC17Seg struct {
	s, e    time.Duration
	open    bool
	stopped bool
}

type vC17KeyModel struct {
	segs     []vC17Seg
	provides []time.Duration
}

type vC17Sim struct {
	c    *vh.Case
	pool *vC17PoolT
	self peer.ID
	base time.Time
	r    int
	salt uint64

	lateStacks []string // guarded by mu

	deadPct            int
	routerLat, sendLat atomic.Int64 // max injected latency (ns)

	// transient errors of healthy recipients: an ADD_PROVIDER for (key, peer) fails with this
	// probability, at most once per pair and 20 virtual minutes, and never twice in a row within the
	// RPC sequence of one sender goroutine to one peer - so the provider's "more than 2 consecutive
	// failures: give up on this peer" rule never fires and every key is still attempted at every peer.
	// The provider does not retry a failed record (documented), so a failed attempt discharges the pair.
	flakyPct   int
	flakyDone  map[[3]int32]bool
	flakyLast  map[vC17Job]bool
	nSendFlaky int

	provideClause, provideSig string               // how a missed hand-over obligation is reported
	sigOf                     func(k int32) string // optional refinement of provideSig per key
	noteOf                    func(k int32) string // optional annotation of a key in witnesses

	mu           sync.Mutex
	epochs       []vC17Epoch
	reported     []bool
	repAt        [][]time.Duration // virtual times at which the router reported each peer (ascending)
	sends        map[int32][]vC17Send
	addrs        []ma.Multiaddr
	addrBytes    [][]byte
	targets      map[[2]int32][]int32
	model        map[int32]*vC17KeyModel
	blocked      [][2]time.Duration // outages: obligations suspended
	shortOut     [][2]time.Duration // outages shorter than the smallest offline delay: windows across them get a later deadline
	deferred     []vC17Deferred     // keys handed over during an outage and still queued when it ends
	merges       []vC17Merge        // scheduled prefixes replaced by a shorter one during a StartProviding call
	oneRegion    time.Duration      // > 0: the StartProviding call at this time found a schedule of one region and added more
	onePrefix    string             // that region's prefix
	stuckAt      time.Duration      // > 0: first time the cursor was seen re-armed on onePrefix at its own slot with more regions scheduled
	nGCP         int
	nSend        int
	nSendFail    int
	badPay       []string
	unrep        []string
	apiErr       []string
	capHits      []vC17CapHit
	earlyStops   []vC17Explore     // explorations left by the no-fresh-peers break with gaps still unexplored
	reprovStarts []vC17ReprovStart // "reprovide starting for prefix" lines of the provider, in order

	outage       atomic.Bool
	closing      atomic.Bool
	inflight     atomic.Int64
	sendInflight atomic.Int64 // ADD_PROVIDER RPCs in flight

	busyMu    sync.Mutex
	busyN     int
	busyStart time.Duration
	busyEnd   time.Duration
	busyMax   time.Duration // longest period during which some lookup or RPC was in flight
}

func (s *vC17Sim) enter() {
	s.inflight.Add(1)
	s.busyMu.Lock()
	if s.busyN == 0 {
		if now := s.now(); now != s.busyEnd || s.busyStart < 0 {
			s.busyStart = now // a new busy period (back-to-back operations continue the old one)
		}
	}
	s.busyN++
	s.busyMu.Unlock()
}

func (s *vC17Sim) leave() {
	s.busyMu.Lock()
	s.busyN--
	if s.busyN == 0 {
		s.busyEnd = s.now()
		if d := s.busyEnd - s.busyStart; d > s.busyMax {
			s.busyMax = d
		}
	}
	s.busyMu.Unlock()
	s.inflight.Add(-1)
}

func vC17NewSim(c *vh.Case, r, deadPct int, routerLat, sendLat time.Duration, members []int32) *vC17Sim {
	p := vC17Pool()
	selfH, _ := mh.Sum([]byte(fmt.Sprintf("vC17-self-%d", c.R.Int63())), mh.SHA2_256, -1)
	s := &vC17Sim{c: c, pool: p, self: peer.ID(selfH), base: time.Now(), r: r, salt: c.R.Uint64(), deadPct: deadPct,
		provideClause: "provide-bound", provideSig: "provide/not-advertised", reported: make([]bool, len(p.peers)), repAt: make([][]time.Duration, len(p.peers)), sends: map[int32][]vC17Send{},
		targets: map[[2]int32][]int32{}, model: map[int32]*vC17KeyModel{}, flakyDone: map[[3]int32]bool{}, flakyLast: map[vC17Job]bool{}}
	s.routerLat.Store(int64(routerLat))
	s.sendLat.Store(int64(sendLat))
	s.epochs = []vC17Epoch{{start: 0, members: append([]int32(nil), members...)}}
	s.setAddrs(0)
	vC17CurSim.Store(s)
	return s
}

func (s *vC17Sim) now() time.Duration { return time.Since(s.base) }

func (s *vC17Sim) setAddrs(gen int) {
	a1, _ := ma.NewMultiaddr(fmt.Sprintf("/ip4/10.%d.0.1/tcp/4001", gen%250))
	a2, _ := ma.NewMultiaddr(fmt.Sprintf("/ip4/10.%d.0.2/udp/4001/quic-v1", gen%250))
	s.mu.Lock()
	s.addrs = []ma.Multiaddr{a1, a2}[:1+gen%2]
	s.addrBytes = nil
	for _, a := range s.addrs {
		s.addrBytes = append(s.addrBytes, a.Bytes())
	}
	s.mu.Unlock()
}

func (s *vC17Sim) selfAddrs() []ma.Multiaddr {
	s.mu.Lock()
	defer s.mu.Unlock()
	return append([]ma.Multiaddr(nil), s.addrs...)
}

func (s *vC17Sim) dead(p int32) bool {
	if s.deadPct == 0 {
		return false
	}
	x := (uint64(p)+1)*0x9e3779b97f4a7c15 ^ s.salt
	x ^= x >> 29
	x *= 0xbf58476d1ce4e5b9
	x ^= x >> 32
	return int(x%100) < s.deadPct
}

func (s *vC17Sim) lat(max time.Duration, a string, b int32) time.Duration {
	if max <= 0 || s.closing.Load() {
		return 0
	}
	x := uint64(b+7) * 0x94d049bb133111eb
	for i := 0; i < len(a) && i < 12; i++ {
		x = (x ^ uint64(a[len(a)-1-i])) * 0x100000001b3
	}
	x ^= x >> 31
	return time.Duration(x%uint64(max/time.Millisecond)+1) * time.Millisecond
}

func (s *vC17Sim) members() []int32 {
	s.mu.Lock()
	defer s.mu.Unlock()
	return s.epochs[len(s.epochs)-1].members
}

// GetClosestPeers implements KadClosestPeersRouter.
func (s *vC17Sim) GetClosestPeers(ctx context.Context, k string) ([]peer.ID, error) {
	vC17PathOfCaller() // lets the goroutine of an individual provide inherit the kind of its batch (see there)
	s.enter()
	defer s.leave()
	if d := s.lat(time.Duration(s.routerLat.Load()), k, 0); d > 0 {
		time.Sleep(d)
	}
	if s.outage.Load() {
		if !s.closing.Load() {
			time.Sleep(vC17OutageFailLat)
		}
		return nil, errors.New("vC17 sim: network unreachable")
	}
	t := sha256.Sum256([]byte(k))
	s.mu.Lock()
	defer s.mu.Unlock()
	s.nGCP++
	near := vC17Nearest(s.pool.peers, s.epochs[len(s.epochs)-1].members, &t, vC17K)
	out := make([]peer.ID, len(near))
	for i, m := range near {
		s.reported[m] = true
		s.repAt[m] = append(s.repAt[m], time.Since(s.base))
		out[i] = peer.ID(s.pool.peers[m].raw)
	}
	return out, nil
}

func (s *vC17Sim) SendRequest(ctx context.Context, p peer.ID, m *pb.Message) (*pb.Message, error) {
	return nil, errors.New("vC17 sim: SendRequest is not expected from the provider")
}

// SendMessage implements pb.MessageSender: the simulated recipient.
func (s *vC17Sim) SendMessage(ctx context.Context, p peer.ID, m *pb.Message) error {
	s.enter()
	defer s.leave()
	s.sendInflight.Add(1)
	defer s.sendInflight.Add(-1)
	key := string(m.GetKey())
	pi, known := s.pool.peerIdx[string(p)]
	if d := s.lat(time.Duration(s.sendLat.Load()), key, pi); d > 0 {
		time.Sleep(d)
	}
	// an unreachable recipient costs time (dial timeout): failures are never instantaneous, else the
	// provider's immediate retry of a failed region would spin without virtual time advancing
	if !s.closing.Load() {
		if s.outage.Load() {
			time.Sleep(vC17OutageFailLat)
		} else if known && s.dead(pi) {
			time.Sleep(vC17DeadFailLat)
		}
	}
	if err := ctx.Err(); err != nil {
		return err
	}
	now := s.now()
	s.mu.Lock()
	defer s.mu.Unlock()
	s.nSend++
	ki, kok := s.pool.keyIdx[key]
	if m.GetType() != pb.Message_ADD_PROVIDER || !kok {
		if len(s.badPay) < 5 {
			s.badPay = append(s.badPay, fmt.Sprintf("+%v to %x: type %v, key known=%v", now, string(p), m.GetType(), kok))
		}
		return nil
	}
	if !known || !s.reported[pi] {
		if len(s.unrep) < 5 {
			s.unrep = append(s.unrep, fmt.Sprintf("+%v key %s sent to %x (in pool: %v) which no GetClosestPeers answer contained", now, vC17Bits(&s.pool.keys[ki].kad, 12), string(p), known))
		}
		if !known {
			return nil
		}
	}
	// payload: exactly one provider = self with the current addresses
	pp := m.GetProviderPeers()
	okPay := len(pp) == 1 && string(pp[0].GetId()) == string(s.self) && len(pp[0].GetAddrs()) == len(s.addrBytes)
	if okPay {
		for i, a := range pp[0].GetAddrs() {
			if string(a) != string(s.addrBytes[i]) {
				okPay = false
			}
		}
	}
	if !okPay && len(s.badPay) < 5 {
		s.badPay = append(s.badPay, fmt.Sprintf("+%v key %s to %x: %d provider entries, addrs %v, expected self with %v", now, vC17Bits(&s.pool.keys[ki].kad, 12), string(p), len(pp), pp, s.addrs))
	}
	ok := !s.outage.Load() && !s.dead(pi)
	flaky := false
	if ok && s.flakyPct > 0 {
		job, pair := vC17Job{m, pi}, [3]int32{ki, pi, int32(now / (20 * time.Minute))}
		x := (uint64(ki)*0x9e3779b97f4a7c15 + uint64(pi)*0xbf58476d1ce4e5b9 + uint64(pair[2])) ^ s.salt
		x ^= x >> 31
		x *= 0x94d049bb133111eb
		x ^= x >> 29
		if int(x%100) < s.flakyPct && !s.flakyDone[pair] && !s.flakyLast[job] {
			flaky, ok = true, false
			s.flakyDone[pair] = true
		}
		s.flakyLast[job] = flaky
	}
	var path byte
	if m := s.model[ki]; m != nil && len(m.segs) > 0 && m.segs[len(m.segs)-1].stopped {
		path = vC17PathOfCaller()
	}
	s.sends[ki] = append(s.sends[ki], vC17Send{t: now, peer: pi, epoch: int32(len(s.epochs) - 1), ok: ok, flaky: flaky, path: path})
	if tr := os.Getenv("VERIF_C17_TRACEKEY"); tr != "" && strings.HasPrefix(vC17Bits(&s.pool.keys[ki].kad, 64), tr) { // debugging aid
		fmt.Fprintf(os.Stderr, "TRACE +%v key %s (%x) -> peer %s ok=%v\n", now, vC17Bits(&s.pool.keys[ki].kad, 16), key[:6], vC17Bits(&s.pool.peers[pi].kad, 16), ok)
	}
	// witness: who sends a key that was stopped more than 10 minutes ago (first three)
	if m := s.model[ki]; m != nil && len(m.segs) > 0 && len(s.lateStacks) < 3 {
		if sg := m.segs[len(m.segs)-1]; sg.stopped && !sg.open && now > sg.e+10*time.Minute {
			s.lateStacks = append(s.lateStacks, fmt.Sprintf("+%v key %s stopped at +%v sent by:\n%s", now, vC17Bits(&s.pool.keys[ki].kad, 16), sg.e, debug.Stack()))
		}
	}
	if flaky {
		s.nSendFlaky++
		return errors.New("vC17 sim: stream reset")
	}
	if !ok {
		s.nSendFail++
		return errors.New("vC17 sim: peer unreachable")
	}
	return nil
}

// rest waits for a point at which nothing is in flight (no lookup, no RPC).
func (s *vC17Sim) rest() bool {
	for i := 0; i < 3000; i++ {
		synctest.Wait()
		if s.inflight.Load() == 0 {
			return true
		}
		time.Sleep(100 * time.Millisecond)
	}
	return false
}

func (s *vC17Sim) sleepUntil(t time.Duration) {
	if d := t - s.now(); d > 0 {
		time.Sleep(d)
	}
}

// churn replaces the swarm (call at a rest point only).
func (s *vC17Sim) churn(members []int32) {
	s.mu.Lock()
	s.epochs = append(s.epochs, vC17Epoch{start: s.now(), members: append([]int32(nil), members...)})
	s.mu.Unlock()
}

func (s *vC17Sim) mhs(keys []int32) []mh.Multihash {
	out := make([]mh.Multihash, len(keys))
	for i, k := range keys {
		out[i] = mh.Multihash(s.pool.keys[k].raw)
	}
	return out
}

func (s *vC17Sim) km(k int32) *vC17KeyModel {
	m := s.model[k]
	if m == nil {
		m = &vC17KeyModel{}
		s.model[k] = m
	}
	return m
}

func (s *vC17Sim) kept(k int32) bool {
	m := s.model[k]
	return m != nil && len(m.segs) > 0 && m.segs[len(m.segs)-1].open
}

// API wrappers: perform the call and advance the model of obligations.
func (s *vC17Sim) start(p *SweepingProvider, force bool, keys []int32) {
	t := s.now()
	s.mu.Lock()
	for _, k := range keys {
		m := s.km(k)
		if !s.kept(k) {
			m.segs = append(m.segs, vC17Seg{s: t, open: true})
			m.provides = append(m.provides, t)
		} else if force {
			m.provides = append(m.provides, t)
		}
	}
	s.mu.Unlock()
	s.c.Logf("+%v StartProviding(force=%v, %d keys)", t.Round(time.Millisecond), force, len(keys))
	before := s.scheduleKeys(p)
	if err := p.StartProviding(force, s.mhs(keys)...); err != nil {
		s.apiErr = append(s.apiErr, fmt.Sprintf("StartProviding: %v", err))
	}
	s.noteMerges(t, before, s.scheduleKeys(p))
}

func (s *vC17Sim) once(p *SweepingProvider, keys []int32) {
	t := s.now()
	s.mu.Lock()
	for _, k := range keys {
		m := s.km(k)
		m.provides = append(m.provides, t)
	}
	s.mu.Unlock()
	s.c.Logf("+%v ProvideOnce(%d keys)", t.Round(time.Millisecond), len(keys))
	if err := p.ProvideOnce(s.mhs(keys)...); err != nil {
		s.apiErr = append(s.apiErr, fmt.Sprintf("ProvideOnce: %v", err))
	}
}

func (s *vC17Sim) stop(p *SweepingProvider, keys []int32) {
	s.c.Logf("+%v StopProviding(%d keys)", s.now().Round(time.Millisecond), len(keys))
	if err := p.StopProviding(s.mhs(keys)...); err != nil {
		s.apiErr = append(s.apiErr, fmt.Sprintf("StopProviding: %v", err))
	}
	t := s.now() // obligation (3) counts from the return of the call
	s.mu.Lock()
	for _, k := range keys {
		if s.kept(k) {
			m := s.km(k)
			sg := &m.segs[len(m.segs)-1]
			sg.e, sg.open, sg.stopped = t, false, true
		}
	}
	s.mu.Unlock()
}

type vC17Workers struct{ max, periodic, burst, conns int }

// every configuration leaves >= 1 worker usable by the burst class and by the periodic class
var vC17WorkerConfigs = []vC17Workers{{1, 0, 0, 20}, {2, 1, 1, 20}, {4, 2, 1, 20}, {3, 1, 1, 5}, {8, 2, 2, 20}, {2, 0, 1, 1}, {2, 1, 0, 20}, {6, 0, 0, 3}, {3, 2, 0, 20}, {3, 0, 2, 8}}

func (s *vC17Sim) options(w vC17Workers, extra ...Option) []Option {
	opts := []Option{
		WithPeerID(s.self), WithRouter(s), WithMessageSender(s), WithSelfAddrs(s.selfAddrs),
		WithReplicationFactor(s.r), WithReprovideInterval(vC17Interval), WithMaxReprovideDelay(vC17MaxDelay),
		WithMaxWorkers(w.max), WithDedicatedPeriodicWorkers(w.periodic), WithDedicatedBurstWorkers(w.burst),
		WithMaxProvideConnsPerWorker(w.conns),
	}
	return append(opts, extra...)
}

// waitOnline lets the initial connectivity probe and prefix-length measurement finish.
func (s *vC17Sim) waitOnline(p *SweepingProvider) bool {
	for i := 0; i < 40; i++ {
		time.Sleep(500 * time.Millisecond)
		synctest.Wait()
		if p.connectivity.IsOnline() && !p.isOffline() && s.inflight.Load() == 0 {
			return true
		}
	}
	return false
}

func (s *vC17Sim) scheduleSize(p *SweepingProvider) int {
	p.scheduleLk.Lock()
	defer p.scheduleLk.Unlock()
	return p.schedule.Size()
}

// schedulePrefixes renders the scheduled region prefixes (witness only).
func (s *vC17Sim) schedulePrefixes(p *SweepingProvider) string {
	p.scheduleLk.Lock()
	defer p.scheduleLk.Unlock()
	var out []string
	for _, k := range keyspace.AllKeys(p.schedule, p.order) {
		out = append(out, string(k))
	}
	sort.Strings(out)
	if len(out) > 40 {
		out = append(out[:40], "…")
	}
	return strings.Join(out, " ")
}

// ---- oracle ---------------------------------------------------------------------------------

func (s *vC17Sim) epochEnd(e int) time.Duration {
	if e+1 < len(s.epochs) {
		return s.epochs[e+1].start
	}
	return 1 << 62
}

// target returns the healthy peers among the r nearest to key k in epoch e.
func (s *vC17Sim) target(k int32, e int) []int32 {
	id := [2]int32{k, int32(e)}
	if t, ok := s.targets[id]; ok {
		return t
	}
	near := vC17Nearest(s.pool.peers, s.epochs[e].members, &s.pool.keys[k].kad, s.r)
	t := []int32{}
	for _, p := range near {
		if !s.dead(p) {
			t = append(t, p)
		}
	}
	s.targets[id] = t
	return t
}

// complete reports whether [lo,hi] contains a complete advertisement of k: for some swarm epoch
// overlapping the window every healthy peer among the then r nearest got k inside the window.
// anySend tells whether k was sent to anybody at all inside the window.
func (s *vC17Sim) complete(k int32, lo, hi time.Duration) (ok, anySend bool) {
	sends := s.sends[k]
	i := sort.Search(len(sends), func(i int) bool { return sends[i].t >= lo })
	var got map[[2]int32]bool
	for ; i < len(sends) && sends[i].t <= hi; i++ {
		anySend = true
		if sends[i].ok || sends[i].flaky {
			if got == nil {
				got = map[[2]int32]bool{}
			}
			got[[2]int32{sends[i].epoch, sends[i].peer}] = true
		}
	}
	for e := range s.epochs {
		if s.epochs[e].start > hi || s.epochEnd(e) < lo {
			continue
		}
		t := s.target(k, e)
		all := true
		for _, p := range t {
			if !got[[2]int32{int32(e), p}] {
				all = false
				break
			}
		}
		if all {
			return true, anySend
		}
	}
	return false, anySend
}

func (s *vC17Sim) rank(k int32, e int, p int32) int {
	t := &s.pool.keys[k].kad
	n := 0
	in := false
	for _, m := range s.epochs[e].members {
		if m == p {
			in = true
			continue
		}
		if vC17Less(&s.pool.peers[m].kad, &s.pool.peers[p].kad, t) {
			n++
		}
	}
	if !in {
		return -1 - n
	}
	return n
}

// describe renders what happened to k inside [lo,hi] for a witness.
func (s *vC17Sim) describe(k int32, lo, hi time.Duration) string {
	var sb strings.Builder
	fmt.Fprintf(&sb, "key %s…, window [+%v, +%v], r=%d", vC17Bits(&s.pool.keys[k].kad, 16), lo.Round(time.Second), hi.Round(time.Second), s.r)
	for e := range s.epochs {
		if s.epochs[e].start > hi || s.epochEnd(e) < lo {
			continue
		}
		t := s.target(k, e)
		var miss []int
		recv := map[int32]time.Duration{}
		for _, sd := range s.sends[k] {
			if sd.t >= lo && sd.t <= hi && int(sd.epoch) == e {
				recv[sd.peer] = sd.t
			}
		}
		for _, p := range t {
			if _, ok := recv[p]; !ok {
				miss = append(miss, s.rank(k, e, p))
			}
		}
		var ranks []int
		for p := range recv {
			ranks = append(ranks, s.rank(k, e, p))
		}
		sort.Ints(ranks)
		sort.Ints(miss)
		fmt.Fprintf(&sb, "; swarm epoch %d (%d peers): %d healthy among the %d nearest, missed distance ranks %v, recipients' ranks %v", e, len(s.epochs[e].members), len(t), s.r, miss, ranks)
	}
	var last, next time.Duration = -1, -1
	for _, sd := range s.sends[k] {
		if sd.t < lo {
			last = sd.t
		}
		if sd.t > hi && next < 0 {
			next = sd.t
		}
	}
	fmtT := func(d time.Duration) string {
		if d < 0 {
			return "none"
		}
		return "+" + d.Round(time.Second).String()
	}
	fmt.Fprintf(&sb, "; last ADD_PROVIDER of the key before the window: %s, first after: %s", fmtT(last), fmtT(next))
	return sb.String()
}

// batchTime is the measured batch time: the longest period during which lookups / RPCs of the
// provider were continuously in flight (a region waiting for a worker, being explored and being sent
// lies inside one such period), capped so that a misbehaving provider cannot widen its own slack.
func (s *vC17Sim) batchTime() time.Duration {
	s.busyMu.Lock()
	defer s.busyMu.Unlock()
	if s.busyMax > vC17BatchCap {
		return vC17BatchCap
	}
	return s.busyMax
}

// capHit tells whether an exploration gave up at the lookup cap inside [lo,hi]; the second result
// describes it (and whether the key lies in a part of the keyspace that was left unexplored).
func (s *vC17Sim) capHit(k int32, lo, hi time.Duration) (bool, string) {
	for _, h := range s.capHits {
		if h.t >= lo && h.t <= hi {
			under := false
			bits := vC17Bits(&s.pool.keys[k].kad, 64)
			for _, g := range h.gaps {
				if strings.HasPrefix(bits, g) {
					under = true
				}
			}
			return true, fmt.Sprintf("at +%v an exploration stopped at the cap of %d lookups leaving %v unexplored (key inside: %v)", h.t.Round(time.Second), maxExplorationPrefixSearches, h.gaps, under)
		}
	}
	return false, ""
}

// smallSwarmUnreported: besides the lookup cap the exploration stops after maxConsecutiveNoFreshPeers (2) lookups that
// return no fresh peer ("we've likely found all peers in the region", provider.go) - a documented heuristic that
// misjudges only swarms barely larger than the router's K, where two answers of K peers can coincide although peers
// remain. The property speaks of the nearest peers "as reported by the closest-peers router": in a swarm of fewer than
// 3K peers a miss is an observation, not a verdict, when at least one of the missing target peers was not reported by
// the router at all during the exploration that preceded the key's sends of that epoch (from 10 minutes before the
// first to the last of them).
func (s *vC17Sim) smallSwarmUnreported(k int32, lo, hi time.Duration) (bool, string) {
	for e := range s.epochs {
		if s.epochs[e].start > hi || s.epochEnd(e) < lo || len(s.epochs[e].members) >= 3*vC17K {
			continue
		}
		first, last := time.Duration(-1), time.Duration(-1)
		for _, sd := range s.sends[k] {
			if int(sd.epoch) == e && sd.t >= lo && sd.t <= hi {
				if first < 0 {
					first = sd.t
				}
				last = sd.t
			}
		}
		if first < 0 {
			continue
		}
		var unrep []string // judged after the run has ended: no concurrent writer of repAt any more
		for _, p := range s.target(k, e) {
			seen := false
			for _, t := range s.repAt[p] {
				if t >= first-10*time.Minute && t <= last {
					seen = true
					break
				}
			}
			if !seen {
				unrep = append(unrep, fmt.Sprintf("%x", s.pool.peers[p].raw[:4]))
			}
		}
		if len(unrep) > 0 {
			return true, fmt.Sprintf("swarm of %d peers (< 3K): target peers %v were not reported by the router during the exploration preceding these sends (it ended by its no-fresh-peers heuristic)", len(s.epochs[e].members), unrep)
		}
	}
	return false, ""
}

// allocSig chooses the signature of "advertised, but not to the r nearest".
func (s *vC17Sim) allocSig(v *vC17Verdict, k int32, lo, hi time.Duration) (*int, string, string) {
	if hit, what := s.capHit(k, lo, hi); hit {
		return &v.capFail, vC17CapSig, "; " + what
	}
	if hit, what := s.smallSwarmUnreported(k, lo, hi); hit {
		return &v.capFail, vC17CapSig, "; " + what
	}
	if hit, what := s.stoppedOnEmptyGaps(k, lo, hi); hit {
		return &v.allocFail, "alloc/not-r-nearest/exploration-stopped-after-two-empty-gaps", "; " + what
	}
	return &v.allocFail, "alloc/not-r-nearest", ""
}

// stoppedOnEmptyGaps: the miss is explained by finding #31 - every exploration inside [lo-1m, hi] that ended early
// and left a gap under which one of the key's target peers lies, ended after two CONSECUTIVE lookups that found no
// fresh peer (two empty gaps probed in a row), as maxConsecutiveNoFreshPeers documents it. An exploration that
// ended early in any other way (a break although the previous lookup did find fresh peers) keeps the plain signature.
func (s *vC17Sim) stoppedOnEmptyGaps(k int32, lo, hi time.Duration) (bool, string) {
	found, what := false, ""
	for e := range s.epochs {
		if s.epochs[e].start > hi || s.epochEnd(e) < lo {
			continue
		}
		for _, p := range s.target(k, e) {
			pb := vC17Bits(&s.pool.peers[p].kad, 64)
			for _, x := range s.earlyStops {
				if x.t < lo-time.Minute || x.t > hi {
					continue
				}
				for _, g := range x.gaps {
					if strings.HasPrefix(pb, g) {
						if !x.lastNoFresh {
							return false, ""
						}
						found = true
						what = fmt.Sprintf("at +%v an exploration stopped after %d lookups, the last two of them without fresh peers, leaving %v unexplored; target peer %s… lies under %q", x.t.Round(time.Second), x.requests, x.gaps, pb[:16], g)
					}
				}
			}
		}
	}
	return found, what
}

// vC17Deferred is the obligation for a key handed over while the network was down and the provider
// never went Offline (the provide queue is only cleared by the Offline transition): it waits in the
// provide queue and is advertised completely within [lo, hi] after the outage.
type vC17Deferred struct {
	k      int32
	lo, hi time.Duration
	note   string
}

// vC17Merge: during a StartProviding call at time t the scheduled prefix `deep` disappeared from the
// schedule and the shorter prefix `short` (a proper prefix of it) was there afterwards.
type vC17Merge struct {
	t           time.Duration
	deep, short string
}

// scheduleKeys lists the scheduled region prefixes.
func (s *vC17Sim) scheduleKeys(p *SweepingProvider) []string {
	p.scheduleLk.Lock()
	defer p.scheduleLk.Unlock()
	var out []string
	for _, k := range keyspace.AllKeys(p.schedule, p.order) {
		out = append(out, string(k))
	}
	return out
}

// sampleCursor looks (white-box) for the state finding #28 leaves behind: after the schedule grew from
// the single region onePrefix, more than one region is scheduled, yet the cursor is (still) onePrefix
// and the timer was armed at onePrefix's own slot - handleReprovide re-armed the cursor on the same
// prefix for a full interval, i.e. it took every other region for late. In a healthy schedule of
// several regions the timer for the cursor is armed at the slot of the region before it.
func (s *vC17Sim) sampleCursor(p *SweepingProvider) {
	s.mu.Lock()
	one, since, seen := s.onePrefix, s.oneRegion, s.stuckAt
	s.mu.Unlock()
	if since == 0 || seen > 0 {
		return
	}
	p.scheduleLk.Lock()
	stuck := false
	if p.schedule.Size() > 1 && string(p.scheduleCursor) == one && !p.scheduleTimerStartedAt.IsZero() && p.scheduleTimerStartedAt.Sub(s.base) > since {
		d := p.timeOffset(p.scheduleTimerStartedAt) - p.reprovideTimeForPrefix(p.scheduleCursor)
		stuck = d > -time.Second && d < time.Second
	}
	p.scheduleLk.Unlock()
	if stuck {
		s.mu.Lock()
		s.stuckAt = s.now()
		s.mu.Unlock()
	}
}

// noteMerges compares the schedule before and after a StartProviding call made at time t.
func (s *vC17Sim) noteMerges(t time.Duration, before, after []string) {
	if len(before) == 1 && len(after) > 1 {
		s.mu.Lock()
		if s.oneRegion == 0 {
			s.oneRegion, s.onePrefix = t, before[0]
		}
		s.mu.Unlock()
	}
	in := map[string]bool{}
	for _, a := range after {
		in[a] = true
	}
	for _, b := range before {
		if in[b] {
			continue
		}
		for _, a := range after {
			if len(a) < len(b) && strings.HasPrefix(b, a) {
				s.mu.Lock()
				s.merges = append(s.merges, vC17Merge{t: t, deep: b, short: a})
				s.mu.Unlock()
				break
			}
		}
	}
}

type vC17Verdict struct {
	capFail                                                 int
	provideJudged, windowsJudged, stopJudged, catchupJudged int
	stopChained                                             int // stopped keys whose in-flight provide batch was retried beyond the grace
	allocFail, gapFail, provFail, stopFail, catchFail       int
}

// free returns the parts of [a,b] outside every outage.
func (s *vC17Sim) free(a, b time.Duration) [][2]time.Duration {
	out := [][2]time.Duration{{a, b}}
	for _, bl := range s.blocked {
		var nx [][2]time.Duration
		for _, iv := range out {
			if bl[1] <= iv[0] || bl[0] >= iv[1] {
				nx = append(nx, iv)
				continue
			}
			if bl[0] > iv[0] {
				nx = append(nx, [2]time.Duration{iv[0], bl[0]})
			}
			if bl[1] < iv[1] {
				nx = append(nx, [2]time.Duration{bl[1], iv[1]})
			}
		}
		out = nx
	}
	return out
}

func (s *vC17Sim) inOutage(t time.Duration) bool {
	for _, bl := range s.blocked {
		if t >= bl[0] && t <= bl[1] {
			return true
		}
	}
	return false
}

// evaluate judges the recorded history up to `end`.
func (s *vC17Sim) evaluate(end time.Duration, windows bool) vC17Verdict {
	c := s.c
	var v vC17Verdict
	s.mu.Lock()
	defer s.mu.Unlock()
	batch := s.batchTime()
	slack := vC17SlackBase + batch
	W := vC17Interval + vC17MaxDelay + slack
	c.Set("slack", slack.String())
	c.Set("window", W.String())
	c.ObsMax("case_wall_ms_observation_only", int(time.Since(vC17CaseStart)/time.Millisecond))
	c.Obs("add_provider_rpcs", s.nSend)
	c.Obs("add_provider_failed_dead_or_offline", s.nSendFail)
	c.Obs("add_provider_failed_transiently", s.nSendFlaky)
	c.Obs("get_closest_peers_calls", s.nGCP)
	c.ObsMax("batch_time_ms", int(batch/time.Millisecond))

	for _, e := range s.apiErr {
		c.Fail("api-error", "%s", e)
	}
	c.ClauseN("recipient-reported", s.nSend)
	for _, u := range s.unrep {
		c.FailSig("recipient-reported", "recipient/not-reported", "%s", u)
	}
	c.ClauseN("payload", s.nSend)
	for _, b := range s.badPay {
		c.FailSig("payload", "payload/not-self-current-addrs", "%s", b)
	}

	keys := make([]int32, 0, len(s.model))
	for k := range s.model {
		keys = append(keys, k)
	}
	sort.Slice(keys, func(i, j int) bool { return keys[i] < keys[j] })
	report := func(n *int, clause, sig, format string, args ...any) {
		*n++
		if sig == vC17CapSig {
			// bounded exploration is documented behaviour (self-healing in the next cycle): the miss is
			// counted and logged, it is not a violation
			if *n <= 3 {
				c.Logf("not judged (%s): "+format, append([]any{sig}, args...)...)
			}
			return
		}
		if *n <= 3 {
			c.FailSig(clause, sig, format, args...)
		}
	}
	for _, k := range keys {
		m := s.model[k]
		// (1) provide bound
		for _, t := range m.provides {
			if t+vC17ProvideBound > end || s.inOutage(t) {
				continue
			}
			v.provideJudged++
			ok, any := s.complete(k, t, t+vC17ProvideBound)
			if ok {
				continue
			}
			if any {
				cnt, sig, extra := s.allocSig(&v, k, t, t+vC17ProvideBound)
				report(cnt, s.provideClause, sig, "handed over at +%v and advertised, but not to all healthy peers among its r nearest: %s%s", t.Round(time.Millisecond), s.describe(k, t, t+vC17ProvideBound), extra)
			} else {
				sig, note := s.provideSig, ""
				if len(m.segs) == 0 && s.provideClause == "provide-bound" {
					// handed over by ProvideOnce only, never in the keystore
					sig, note = "provide/not-advertised/provide-once-key", " (by ProvideOnce only, never in the keystore)"
				}
				if s.sigOf != nil {
					sig = s.sigOf(k)
				}
				if s.noteOf != nil {
					note = " (" + s.noteOf(k) + ")"
				}
				report(&v.provFail, s.provideClause, sig, "handed over at +%v%s, no ADD_PROVIDER within %v: %s", t.Round(time.Millisecond), note, vC17ProvideBound, s.describe(k, t, t+vC17ProvideBound))
			}
		}
		for _, sg := range m.segs {
			e := sg.e
			if sg.open {
				e = end
			}
			// (3) nothing later than slack after StopProviding (until the key is started again)
			if sg.stopped {
				until := end
				for _, o := range m.segs {
					if o.s >= sg.e && o.s < until {
						until = o.s
					}
				}
				v.stopJudged++
				// "not re-advertised in LATER CYCLES". Every send of a stopped key is attributed to the batch that made it
				// (provide batch / reprovide batch, see vC17PathOfCaller):
				//  - a reprovide batch loads its keys from the keystore when it starts: one that started before the stop may
				//    still send within the grace; any later send by a reprovide batch IS the re-advertisement of a later cycle;
				//  - a provide batch that was on the wire when the stop arrived may fail and be put back with the key list it
				//    captured, and is retried for as long as its region keeps failing (finding #30). Retries inside the
				//    current cycle are work of that cycle; later than a whole interval + allowed delay + slack after the stop
				//    they are a later cycle whatever the origin. A reprovide batch that picks such a put-back key up from the
				//    provide queue (DequeueMatching) is the same root cause.
				grace := slack + 10*time.Minute
				provideSendAfterStop := false
				chained := 0
				for _, sd := range s.sends[k] {
					if sd.t <= sg.e || sd.t >= until {
						continue
					}
					if sd.path == 'P' {
						provideSendAfterStop = true
					}
					if sd.t <= sg.e+grace {
						continue
					}
					if sd.path == 'P' && sd.t <= sg.e+W {
						chained++
						continue
					}
					var after []string
					for _, x := range s.sends[k] {
						if x.t > sg.e && x.t < until && len(after) < 40 {
							after = append(after, fmt.Sprintf("+%v->%x(%c ok=%v)", x.t.Round(time.Second), s.pool.peers[x.peer].raw[:3], map[byte]byte{'P': 'P', 'R': 'R', 0: '?'}[x.path], x.ok))
						}
					}
					c.Logf("sends of the stopped key after the stop (P provide batch, R reprovide batch): %v", after)
					sig, what := "stop/readvertised", "sent by a reprovide batch later than the grace after the stop"
					switch {
					case sd.path == 'P':
						sig, what = "stop/readvertised/retry-chain-into-later-cycle", fmt.Sprintf("retry of a provide batch more than interval + max delay + slack = %v after the stop", W)
					case provideSendAfterStop:
						sig, what = "stop/readvertised/retry-chain-into-later-cycle", "sent by a reprovide batch that took the key from the provide queue, where a failed provide batch that was on the wire at the stop had put it back"
					case sd.path == 0:
						what = "batch of the sender not determined"
					}
					report(&v.stopFail, "stop", sig, "key %s… stopped at +%v, ADD_PROVIDER to peer %x at +%v (%s; slack %v)\n%s", vC17Bits(&s.pool.keys[k].kad, 16), sg.e.Round(time.Millisecond), s.pool.peers[sd.peer].raw[:6], sd.t.Round(time.Millisecond), what, slack, strings.Join(s.lateStacks, "\n"))
					break
				}
				if chained > 0 {
					v.stopChained++
				}
			}
			if !windows {
				continue
			}
			// (2) every window of length W inside the kept period, outside outages
			for _, iv := range s.free(sg.s, e) {
				a, b := iv[0], iv[1]
				if a > sg.s && b-a >= vC17CatchUpBound {
					// the period starts with the end of an outage: catch-up
					v.catchupJudged++
					if ok, any := s.complete(k, a, a+vC17CatchUpBound); !ok {
						if any {
							cnt, sig, extra := s.allocSig(&v, k, a, a+vC17CatchUpBound)
							report(cnt, "catch-up", sig, "re-advertised after the outage, but not to all healthy peers among its r nearest: %s%s", s.describe(k, a, a+vC17CatchUpBound), extra)
						} else {
							report(&v.catchFail, "catch-up", "outage/not-caught-up", "back online at +%v, not re-advertised within %v: %s", a.Round(time.Second), vC17CatchUpBound, s.describe(k, a, a+vC17CatchUpBound))
						}
						continue
					}
				}
				if b-a < W {
					continue
				}
				xs := []time.Duration{a}
				for _, sd := range s.sends[k] {
					if sd.t >= a && sd.t+1+W <= b {
						xs = append(xs, sd.t+1)
					}
				}
				for _, x := range xs {
					// a window that meets an outage shorter than the offline delay (regions whose slot fell
					// into it are caught up afterwards) ends at the catch-up bound after the outage at the
					// earliest
					hi, across := x+W, ""
					for _, so := range s.shortOut {
						if so[0] < hi && so[1] > x && so[1]+vC17CatchUpBound > hi {
							hi = so[1] + vC17CatchUpBound
							across = fmt.Sprintf(", extended to the catch-up bound %v after the outage [+%v, +%v]", vC17CatchUpBound, so[0].Round(time.Second), so[1].Round(time.Second))
						}
					}
					if hi > b {
						continue
					}
					v.windowsJudged++
					ok, _ := s.complete(k, x, hi)
					if ok {
						continue
					}
					// was the key advertised at all inside the window (not counting the tail of a burst that
					// began before the window)? yes: wrong recipients; no: a gap in the schedule
					_, any := s.complete(k, x+slack, hi)
					if any {
						cnt, sig, extra := s.allocSig(&v, k, x, hi)
						report(cnt, "reprovide-window", sig, "kept since +%v: advertised inside the window, but never to all healthy peers among its r nearest: %s%s", sg.s.Round(time.Second), s.describe(k, x, hi), extra)
					} else {
						// input class of its own (finding #27): inside the window a StartProviding call of other
						// keys replaced the scheduled prefix of this key by a shorter one (a new key outside every
						// scheduled prefix is scheduled under the average prefix length, which unschedules the
						// longer prefixes below it)
						sig, during := "reprovide/gap-exceeds-bound", ""
						bits := vC17Bits(&s.pool.keys[k].kad, 64)
						for _, mg := range s.merges {
							if mg.t > x && mg.t < hi && strings.HasPrefix(bits, mg.deep) {
								sig += "/start-after-first-cycle-inside-window"
								during = fmt.Sprintf("; StartProviding of other keys at +%v replaced the scheduled prefix %q of this key by %q", mg.t.Round(time.Second), mg.deep, mg.short)
								break
							}
						}
						if during == "" {
							// finding #32: the key was last reprovided as part of a coarser region, the schedule was split into
							// finer regions by that very reprovide, and the finer region's own slot comes later in the cycle than
							// the coarser one's did: the cap on that delay in schedulePrefixNoLock is dead code
							var p1, p2 *vC17ReprovStart
							for i := range s.reprovStarts {
								rs := &s.reprovStarts[i]
								if !strings.HasPrefix(bits, rs.prefix) {
									continue
								}
								if rs.t < x {
									p1 = rs
								} else if p2 == nil {
									p2 = rs
								}
							}
							if p1 != nil && p2 != nil && len(p2.prefix) > len(p1.prefix) {
								sig += "/region-split-moves-slot"
								during = fmt.Sprintf("; the key was last reprovided with region %q at +%v, which its own reprovide split; its next reprovide came with the finer region %q at +%v, whose slot lies %v later in the cycle", p1.prefix, p1.t.Round(time.Second), p2.prefix, p2.t.Round(time.Second), (p2.t - p1.t - vC17Interval).Round(time.Second))
							}
						}
						if during == "" && s.stuckAt > 0 && s.stuckAt < hi {
							sig += "/schedule-grown-from-one-region"
							during = fmt.Sprintf("; the schedule held the single region %q when StartProviding added more at +%v; seen at +%v: cursor re-armed on %q at its own slot for a full interval with several regions scheduled (every other region taken for late)", s.onePrefix, s.oneRegion.Round(time.Second), s.stuckAt.Round(time.Second), s.onePrefix)
						}
						report(&v.gapFail, "reprovide-window", sig, "kept since +%v: no ADD_PROVIDER at all during %v (= interval %v + max delay %v + slack %v%s): %s%s", sg.s.Round(time.Second), hi-x, vC17Interval, vC17MaxDelay, slack, across, s.describe(k, x, hi), during)
					}
					break
				}
			}
		}
	}
	// keys handed over during an outage that were still queued when it ended
	for _, d := range s.deferred {
		if d.hi > end {
			continue
		}
		v.catchupJudged++
		ok, any := s.complete(d.k, d.lo, d.hi)
		if ok {
			continue
		}
		if any {
			cnt, sig, extra := s.allocSig(&v, d.k, d.lo, d.hi)
			report(cnt, "catch-up", sig, "%s, advertised after the outage, but not to all healthy peers among its r nearest: %s%s", d.note, s.describe(d.k, d.lo, d.hi), extra)
		} else {
			report(&v.catchFail, "catch-up", "outage/queued-not-provided", "%s, the provider never went Offline (provide queue not cleared), back online at +%v: no ADD_PROVIDER within %v: %s", d.note, d.lo.Round(time.Second), d.hi-d.lo, s.describe(d.k, d.lo, d.hi))
		}
	}
	c.ClauseN(s.provideClause, v.provideJudged)
	c.ClauseN("reprovide-window", v.windowsJudged)
	c.ClauseN("stop", v.stopJudged)
	c.Obs("stopped_keys_retried_beyond_grace", v.stopChained)
	c.ClauseN("catch-up", v.catchupJudged)
	c.Obs("keys", len(keys))
	c.Obs("provide_obligations_judged", v.provideJudged)
	c.Obs("windows_judged", v.windowsJudged)
	c.Obs("keys_missing_some_r_nearest", v.allocFail)
	c.Obs("keys_with_gap", v.gapFail)
	c.Obs("keys_misallocated_after_lookup_cap", v.capFail)
	c.Obs("explorations_stopped_at_lookup_cap", len(s.capHits))
	c.Obs("explorations_stopped_by_no_fresh_peers_with_gaps_left", len(s.earlyStops))
	if v.allocFail > 3 || v.gapFail > 3 || v.provFail > 3 || v.stopFail > 3 || v.catchFail > 3 {
		c.Logf("violations beyond the first three per kind are only counted: alloc=%d gap=%d provide=%d stop=%d catch-up=%d", v.allocFail, v.gapFail, v.provFail, v.stopFail, v.catchFail)
	}
	return v
}

// ---- scenario generation --------------------------------------------------------------------

func vC17LogUniform(c *vh.Case, lo, hi int) int {
	if hi <= lo {
		return lo
	}
	return int(float64(lo)*math.Pow(float64(hi)/float64(lo), c.R.Float64()) + 0.5)
}

// pickPeers draws n pool peers: uniform, or (clustered) 70 % of them under one random prefix.
func vC17PickPeers(c *vh.Case, n int, clustered bool, exclude map[int32]bool) []int32 {
	p := vC17Pool()
	var out []int32
	perm := c.R.Perm(len(p.peers))
	if clustered {
		bits := 2 + c.R.Intn(3)
		pre := vC17Bits(&p.peers[perm[0]].kad, bits)
		want := n * 7 / 10
		for _, i := range perm {
			if len(out) >= want {
				break
			}
			if !exclude[int32(i)] && vC17Bits(&p.peers[i].kad, bits) == pre {
				out = append(out, int32(i))
				exclude[int32(i)] = true
			}
		}
	}
	for _, i := range perm {
		if len(out) >= n {
			break
		}
		if !exclude[int32(i)] {
			out = append(out, int32(i))
			exclude[int32(i)] = true
		}
	}
	return out
}

// pickKeys draws n pool keys: uniform, or all under one random prefix of 3..6 bits.
func vC17PickKeys(c *vh.Case, n int, single bool) []int32 {
	p := vC17Pool()
	perm := c.R.Perm(len(p.keys))
	var out []int32
	if single {
		bits := 3 + c.R.Intn(4)
		pre := vC17Bits(&p.keys[perm[0]].kad, bits)
		for _, i := range perm {
			if len(out) >= n {
				break
			}
			if vC17Bits(&p.keys[i].kad, bits) == pre {
				out = append(out, int32(i))
			}
		}
		return out
	}
	for _, i := range perm[:n] {
		out = append(out, int32(i))
	}
	return out
}

type vC17Params struct {
	N, nKeys, r, deadPct int
	flakyPct             int
	clusteredSwarm       bool
	singlePrefixKeys     bool
	workers              vC17Workers
	routerLat, sendLat   time.Duration
}

func (p vC17Params) String() string {
	return fmt.Sprintf("N=%d keys=%d r=%d dead=%d%% flaky=%d%% clustered=%v single-prefix=%v workers=%d/%d/%d conns=%d lat=%v/%v", p.N, p.nKeys, p.r, p.deadPct, p.flakyPct,
		p.clusteredSwarm, p.singlePrefixKeys, p.workers.max, p.workers.periodic, p.workers.burst, p.workers.conns, p.routerLat, p.sendLat)
}

func vC17RandParams(c *vh.Case, minN, maxN, maxKeys int) vC17Params {
	p := vC17Params{}
	p.N = vC17LogUniform(c, minN, maxN)
	p.nKeys = vC17LogUniform(c, 1, maxKeys)
	p.r = []int{1, 3, 5, 20}[c.R.Intn(4)]
	if c.R.Intn(3) == 0 && p.r >= 5 {
		// r >= 5 keeps the share of failing recipients per provided region below the 80 % at which the
		// provider (by design) declares the whole region failed
		p.deadPct = 30
	}
	p.clusteredSwarm = c.R.Intn(4) == 0
	if p.clusteredSwarm && p.N > vC17MaxClustered {
		// a region is never split while one of its halves holds fewer than r peers, so most of a
		// clustered swarm ends up in one region; keep it small enough to be explored within the
		// provider's cap of 64 lookups per region (see explore/lookup-cap)
		p.N = vC17MaxClustered
	}
	p.singlePrefixKeys = c.R.Intn(4) == 0
	p.workers = vC17WorkerConfigs[c.R.Intn(len(vC17WorkerConfigs))]
	if c.R.Intn(3) == 0 {
		p.routerLat, p.sendLat = time.Duration(20+c.R.Intn(80))*time.Millisecond, time.Duration(2+c.R.Intn(18))*time.Millisecond
	}
	if (p.deadPct > 0 || p.sendLat > 0) && p.workers.conns < 8 {
		// "as long as workers keep up": with recipients that take time (latency, dial timeouts of dead
		// peers) a worker limited to 1-5 connections needs longer than the provide bound for a few
		// hundred keys; such configurations are generated with instant, healthy recipients only
		p.workers.conns = 20
	}
	return p
}

func (s *vC17Sim) describeCase(p vC17Params) {
	s.flakyPct = p.flakyPct
	s.c.Set("params", p.String())
}

// vC17Flaky switches transient recipient errors on in every 5th case without dead recipients (no PRNG
// draw: the other parameters of a case do not depend on it).
func vC17Flaky(c *vh.Case, p *vC17Params) {
	if c.Idx%5 == 2 && p.deadPct == 0 && os.Getenv("VERIF_C17_NOFLAKY") == "" { // env: debugging aid
		p.flakyPct = 20
	}
}

// ---- observation of the provider's own warnings -----------------------------------------------
//
// closestPeersToPrefix gives up after maxExplorationPrefixSearches (64) lookups and carries on with
// the peers found so far (it only logs a warning). Keys whose nearest peers lie in the unexplored
// part are then allocated to the nearest *discovered* peers. The monitor listens to that warning so
// that such a miss is told apart from alloc/not-r-nearest: bounded exploration is documented
// behaviour and heals in the next cycle, so these misses are counted as an observation
// (keys_misallocated_after_lookup_cap), not judged.

type vC17CapHit struct {
	t    time.Duration
	gaps []string
}

var (
	vC17LogOnce sync.Once
	vC17CurSim  atomic.Pointer[vC17Sim]
)

type vC17LogCore struct{}

// vC17ReprovStart: a reprovide batch announced itself for this scheduled prefix.
type vC17ReprovStart struct {
	t      time.Duration
	prefix string
}

// vC17Explore is one closestPeersToPrefix run as its debug lines tell it (grouped by goroutine: one exploration per
// batch goroutine). earlyStop: the loop left by the no-fresh-peers break (the breaking lookup logs nothing, so the
// last logged line still lists gaps and the request count is two ahead of its index); lastNoFresh: the last logged
// lookup found nobody new either, i.e. the break was taken after two CONSECUTIVE lookups without fresh peers, as
// the code documents it.
type vC17Explore struct {
	t           time.Duration
	requests    int
	lastI       int
	lastPeers   int
	prevPeers   int
	gaps        []string
	earlyStop   bool
	lastNoFresh bool
}

var (
	vC17ExpMu   sync.Mutex
	vC17ExpOpen = map[uint64]*vC17Explore{}
	vC17ReqRe   = regexp.MustCompile(`exploration required (\d+) requests`)
)

// vC17BatchPath: goroutine id of a running batch -> 'P' (batchProvide) or 'R' (batchReprovide).
var vC17BatchPath sync.Map

var vC17CreatedRe = regexp.MustCompile(`in goroutine (\d+)\n`)

// vC17PathOfCaller tells which kind of batch the calling goroutine sends for: its own goroutine is the batch
// (single-key individual provide) or it was started by the batch goroutine (sender workers, wg.Go of individual
// provides).
func vC17PathOfCaller() byte {
	buf := make([]byte, 8192)
	buf = buf[:runtime.Stack(buf, false)]
	var id, parent uint64
	fmt.Sscanf(string(buf), "goroutine %d ", &id)
	if v, ok := vC17BatchPath.Load(id); ok {
		return v.(byte)
	}
	if m := vC17CreatedRe.FindAllSubmatch(buf, -1); len(m) > 0 {
		fmt.Sscanf(string(m[len(m)-1][1]), "%d", &parent)
		if v, ok := vC17BatchPath.Load(parent); ok {
			// inherited: the goroutines started by this one (sender workers of an individual provide) find it here
			vC17BatchPath.Store(id, v)
			return v.(byte)
		}
	}
	return 0
}

func vC17Goid() uint64 {
	var buf [64]byte
	n := runtime.Stack(buf[:], false)
	var id uint64
	fmt.Sscanf(string(buf[:n]), "goroutine %d ", &id)
	return id
}

func (vC17LogCore) Enabled(l zapcore.Level) bool        { return l >= zapcore.DebugLevel }
func (k vC17LogCore) With([]zapcore.Field) zapcore.Core { return k }
func (k vC17LogCore) Sync() error                       { return nil }
func (k vC17LogCore) Check(e zapcore.Entry, ce *zapcore.CheckedEntry) *zapcore.CheckedEntry {
	if e.Level >= zapcore.WarnLevel && strings.Contains(e.Message, "maxPrefixSearches") {
		return ce.AddCore(e, k)
	}
	if e.Level == zapcore.InfoLevel && (strings.HasPrefix(e.Message, "provide starting for prefix") || strings.HasPrefix(e.Message, "reprovide starting for prefix")) {
		return ce.AddCore(e, k)
	}
	if e.Level == zapcore.DebugLevel && (e.Message == "closestPeersToPrefix" || (strings.HasPrefix(e.Message, "region ") && strings.Contains(e.Message, "exploration required"))) {
		return ce.AddCore(e, k)
	}
	return ce
}

func (k vC17LogCore) Write(e zapcore.Entry, fields []zapcore.Field) error {
	s := vC17CurSim.Load()
	if s == nil {
		return nil
	}
	if e.Level == zapcore.InfoLevel {
		// batchProvide / batchReprovide announce themselves on their own goroutine: remember which kind of batch it runs
		pth := byte('P')
		if strings.HasPrefix(e.Message, "reprovide") {
			pth = 'R'
		}
		vC17BatchPath.Store(vC17Goid(), pth)
		if pth == 'R' {
			if i, j := strings.Index(e.Message, `"`), strings.LastIndex(e.Message, `"`); i >= 0 && j > i {
				s.mu.Lock()
				s.reprovStarts = append(s.reprovStarts, vC17ReprovStart{t: s.now(), prefix: e.Message[i+1 : j]})
				s.mu.Unlock()
			}
		}
		return nil
	}
	if e.Level == zapcore.DebugLevel {
		g := vC17Goid()
		vC17ExpMu.Lock()
		defer vC17ExpMu.Unlock()
		x := vC17ExpOpen[g]
		if e.Message == "closestPeersToPrefix" {
			if x == nil {
				x = &vC17Explore{lastI: -1}
				vC17ExpOpen[g] = x
			}
			x.gaps = nil
			for _, f := range fields {
				switch f.Key {
				case "i":
					x.lastI = int(f.Integer)
				case "len(allClosestPeers)":
					x.prevPeers, x.lastPeers = x.lastPeers, int(f.Integer)
				case "gaps":
					if gs, ok := f.Interface.([]bitstr.Key); ok {
						for _, gp := range gs {
							x.gaps = append(x.gaps, string(gp))
						}
					}
				}
			}
			return nil
		}
		delete(vC17ExpOpen, g)
		m := vC17ReqRe.FindStringSubmatch(e.Message)
		if x == nil || m == nil {
			return nil // an exploration that logged no lookup line: broke in its first two lookups; nothing to attribute
		}
		fmt.Sscanf(m[1], "%d", &x.requests)
		x.t = s.now()
		x.earlyStop = len(x.gaps) > 0 && x.requests < maxExplorationPrefixSearches && x.requests == x.lastI+2
		x.lastNoFresh = x.lastI >= 1 && x.lastPeers == x.prevPeers
		if x.earlyStop {
			s.mu.Lock()
			s.earlyStops = append(s.earlyStops, *x)
			s.mu.Unlock()
		}
		return nil
	}
	hit := vC17CapHit{t: s.now()}
	for _, f := range fields {
		if gs, ok := f.Interface.([]bitstr.Key); ok && f.Key == "gaps" {
			for _, g := range gs {
				hit.gaps = append(hit.gaps, string(g))
			}
		}
	}
	s.mu.Lock()
	s.capHits = append(s.capHits, hit)
	s.mu.Unlock()
	return nil
}

func vC17SetupLog() {
	vC17LogOnce.Do(func() {
		lvl := zapcore.ErrorLevel
		if env := os.Getenv("VERIF_C17_LOG"); env != "" { // debugging aid: provider log level in the batch log
			if l, err := zapcore.ParseLevel(env); err == nil {
				lvl = l
			}
		}
		out := zapcore.NewCore(zapcore.NewConsoleEncoder(zap.NewDevelopmentEncoderConfig()), zapcore.Lock(os.Stderr), lvl)
		logging.SetPrimaryCore(zapcore.NewTee(out, vC17LogCore{}))
		logging.Logger(DefaultLoggerName)
		// the provider's logger runs at debug level: the exploration lines reach vC17LogCore (the console core above
		// keeps its own level)
		logging.SetLogLevel(DefaultLoggerName, "debug")
	})
}

var vC17CaseStart time.Time // real time at which the case in flight began (observation only)

func vC17SelfCheck(c *vh.Case) bool {
	vC17CaseStart = time.Now()
	vC17SetupLog()
	p := vC17Pool()
	if !p.selfOK {
		c.FailSig("selfcheck", "harness/metric-selfcheck", "monitor's XOR ordering disagrees with go-libp2p-kbucket: %s", p.selfMsg)
		return false
	}
	c.Clause("selfcheck")
	return true
}

// ---- unit: provide --------------------------------------------------------------------------

func TestVerif_C17_provide(t *testing.T) {
	vh.Run(t, vh.Spec{Prop: "C17", Unit: "provide", Quick: 42, Thorough: 1200, CostMs: 60,
		Rule:    "PRNG scenario: swarm of 1-2400 simulated peers (uniform / 70% under one prefix / tiny), router K=20, r in {1,3,5,20}, 0 or 30% dead recipients, worker configurations leaving each class a worker, 0 or 20-100 ms / 2-20 ms router/peer latency, every 5th case without dead recipients: 20% of the (key, peer) RPCs fail once (never twice in a row to one peer within a batch; a failed attempt discharges the pair, the provider does not retry records); 1-600 keys (uniform or single prefix) handed over in 1-4 StartProviding/ProvideOnce calls plus a forced repeat, own addresses changed at a rest point; 35 virtual minutes; cases with index mod 7 in {1,5}: 300-500 kept keys, then 300-500 ProvideOnce keys draining slowly (400-900 ms per RPC) while the scheduled reprovides of their regions fire; non-trivial = >= 1 hand-over obligation judged; distinct by parameter tuple",
		Clauses: []string{"selfcheck", "provide-bound", "payload", "recipient-reported"}},
		func(c *vh.Case) {
			if !vC17SelfCheck(c) {
				return
			}
			p := vC17RandParams(c, 20, 2400, 600)
			if c.Idx%7 == 3 {
				p.N = 1 + c.R.Intn(4) // tiny swarm
				p.clusteredSwarm = false
			}
			if c.Idx%7 == 5 || c.Idx%7 == 1 {
				vC17OnceDuringReprovide(t, c)
				return
			}
			vC17Flaky(c, &p)
			var sim *vC17Sim
			var end time.Duration
			c.Bubble(t, 3*time.Hour, "hang", func(t *testing.T) {
				sim = vC17NewSim(c, p.r, p.deadPct, p.routerLat, p.sendLat, vC17PickPeers(c, p.N, p.clusteredSwarm, map[int32]bool{}))
				sim.describeCase(p)
				prov, err := New(sim.options(p.workers)...)
				if err != nil {
					c.Fail("api-error", "New: %v", err)
					return
				}
				if !c.Check(sim.waitOnline(prov), "online-after-start", "provider not online / prefix length not measured 20 s after New with a healthy router") {
					sim.closing.Store(true)
					prov.Close()
					return
				}
				keys := vC17PickKeys(c, p.nKeys, p.singlePrefixKeys)
				calls := 1 + c.R.Intn(4)
				if calls > len(keys) {
					calls = len(keys)
				}
				at := sim.now()
				for i := 0; i < calls; i++ {
					at += time.Duration(1+c.R.Intn(60000)) * time.Millisecond
					sim.sleepUntil(at)
					part := keys[i*len(keys)/calls : (i+1)*len(keys)/calls]
					if c.R.Intn(3) == 0 {
						sim.once(prov, part)
					} else {
						sim.start(prov, c.R.Intn(2) == 0, part)
					}
					if c.R.Intn(3) == 0 && sim.rest() {
						sim.setAddrs(i + 1)
						c.Logf("+%v own addresses changed", sim.now().Round(time.Millisecond))
					}
				}
				// forced repeat of a few keys already handed over
				at += time.Duration(1+c.R.Intn(60000)) * time.Millisecond
				sim.sleepUntil(at)
				sim.start(prov, true, keys[:1+c.R.Intn(len(keys))])
				sim.sleepUntil(at + vC17ProvideBound + time.Second)
				sim.rest()
				end = sim.now()
				c.ObsMax("schedule_regions", sim.scheduleSize(prov))
				sim.closing.Store(true)
				if err := prov.Close(); err != nil {
					c.Fail("api-error", "Close: %v", err)
				}
			})
			if sim == nil || end == 0 {
				return
			}
			v := sim.evaluate(end, false)
			if v.provideJudged > 0 {
				c.Nontrivial(p.String())
			}
		})
}

// vC17OnceDuringReprovide: ProvideOnce keys wait in a slowly draining provide queue while the
// scheduled reprovides of their regions (each holding > 2 kept keys) fire. Obligation (1) holds for
// them like for any other key.
func vC17OnceDuringReprovide(t *testing.T, c *vh.Case) {
	p := vC17Params{N: 300 + c.R.Intn(700), nKeys: 300 + c.R.Intn(200), r: []int{3, 5}[c.R.Intn(2)],
		workers: []vC17Workers{{2, 1, 0, 20}, {3, 1, 1, 20}, {4, 2, 1, 20}}[c.R.Intn(3)],
		sendLat: time.Duration(400+c.R.Intn(500)) * time.Millisecond}
	nOnce := 300 + c.R.Intn(200)
	c.Set("scenario", fmt.Sprintf("once-during-reprovide: %d kept keys, then %d ProvideOnce keys", p.nKeys, nOnce))
	var sim *vC17Sim
	var end time.Duration
	c.Bubble(t, 4*time.Hour, "hang", func(t *testing.T) {
		sim = vC17NewSim(c, p.r, 0, 0, p.sendLat, vC17PickPeers(c, p.N, false, map[int32]bool{}))
		sim.describeCase(p)
		prov, err := New(sim.options(p.workers)...)
		if err != nil {
			c.Fail("api-error", "New: %v", err)
			return
		}
		defer func() {
			sim.rest()
			sim.closing.Store(true)
			if err := prov.Close(); err != nil {
				c.Fail("api-error", "Close: %v", err)
			}
		}()
		if !c.Check(sim.waitOnline(prov), "online-after-start", "provider not online / prefix length not measured 20 s after New with a healthy router") {
			return
		}
		all := vC17PickKeys(c, p.nKeys+nOnce, false)
		sim.start(prov, true, all[:p.nKeys])
		sim.sleepUntil(sim.now() + time.Duration(5+c.R.Intn(20))*time.Minute)
		sim.rest()
		sim.once(prov, all[p.nKeys:])
		sim.sleepUntil(sim.now() + vC17ProvideBound + time.Second)
		sim.rest()
		end = sim.now()
		c.ObsMax("schedule_regions", sim.scheduleSize(prov))
	})
	if sim == nil || end == 0 {
		return
	}
	if v := sim.evaluate(end, false); v.provideJudged > 0 {
		c.Nontrivial("once-during-reprovide " + p.String())
	}
}

// ---- unit: reprovide ------------------------------------------------------------------------

func TestVerif_C17_reprovide(t *testing.T) {
	vh.Run(t, vh.Spec{Prop: "C17", Unit: "reprovide", Quick: 98, Thorough: 3000, CostMs: 120,
		Rule:    "PRNG scenario over 3.6-4.6 virtual hours (interval 1 h, max delay 5 min): keys started in 1-3 calls during the first minutes, then by class (index mod 7): 0/1 steady small provider (800-2000 peers, 30-120 keys: <= 2 keys per region), 2 swarm x4 at a rest point, 3 swarm /4, 4 x4 then /4, 5 many keys with StopProviding / restart of a subset, 6 random churn (3 redraws of the swarm size within [n/4, 4n], <= 2000); clustered swarms stay <= 600 peers (lookup cap of the exploration); r in {1,3,5,20} vs router K=20, dead recipients, transient RPC failures, worker configurations, latencies as in unit provide; window oracle on every kept key; non-trivial = >= 3 cycles observed and >= 1 full window judged; distinct by parameter tuple + script",
		Clauses: []string{"selfcheck", "provide-bound", "reprovide-window", "stop", "payload", "recipient-reported"}},
		func(c *vh.Case) {
			if !vC17SelfCheck(c) {
				return
			}
			class := c.Idx % 7
			var p vC17Params
			switch class {
			case 0, 1:
				p = vC17RandParams(c, 800, 2000, 120)
				p.nKeys = 30 + c.R.Intn(91)
				p.r = []int{3, 5}[c.R.Intn(2)]
				p.singlePrefixKeys = false
			case 2:
				p = vC17RandParams(c, 20, 550, 400)
			case 3, 4:
				p = vC17RandParams(c, 200, 2000, 400)
			case 5:
				p = vC17RandParams(c, 50, 1500, 600)
				p.nKeys = 100 + c.R.Intn(500)
			default:
				p = vC17RandParams(c, 3, 2000, 300)
			}
			if class >= 2 && class != 5 && c.R.Intn(6) == 0 {
				p.r = 20
			}
			if p.clusteredSwarm && (class == 2 || class == 4) && p.N > vC17MaxClustered/4 {
				p.N = vC17MaxClustered / 4 // the swarm will grow x4
			}
			vC17Flaky(c, &p)
			type ev struct {
				at   time.Duration
				kind string
				arg  int
			}
			var script []ev
			h := func(min int) time.Duration { return time.Duration(min) * time.Minute }
			total := h(216 + c.R.Intn(61))
			switch class {
			case 2:
				script = append(script, ev{h(50 + c.R.Intn(60)), "grow", 4})
			case 3:
				script = append(script, ev{h(50 + c.R.Intn(60)), "shrink", 4})
			case 4:
				if p.N > 550 {
					p.N = 550
				}
				script = append(script, ev{h(40 + c.R.Intn(40)), "grow", 4}, ev{h(120 + c.R.Intn(40)), "shrink", 4})
			case 5:
				script = append(script, ev{h(20 + c.R.Intn(100)), "stop", 3}, ev{h(125 + c.R.Intn(30)), "restart-keys", 0}, ev{h(160 + c.R.Intn(20)), "stop", 2})
			case 6:
				for i := 0; i < 3; i++ {
					script = append(script, ev{h(35+i*65) + time.Duration(c.R.Intn(1200))*time.Second, "redraw", c.R.Intn(1 << 20)})
				}
			}
			if c.R.Intn(3) == 0 {
				script = append(script, ev{h(30 + c.R.Intn(150)), "addrs", 1})
			}
			sort.Slice(script, func(i, j int) bool { return script[i].at < script[j].at })
			var sb strings.Builder
			for _, e := range script {
				fmt.Fprintf(&sb, " %s(%d)@%v", e.kind, e.arg, e.at)
			}
			c.Set("script", sb.String())
			c.Set("class", class)

			var sim *vC17Sim
			var end time.Duration
			c.Bubble(t, 12*time.Hour, "hang", func(t *testing.T) {
				in := map[int32]bool{}
				sim = vC17NewSim(c, p.r, p.deadPct, p.routerLat, p.sendLat, vC17PickPeers(c, p.N, p.clusteredSwarm, in))
				sim.describeCase(p)
				prov, err := New(sim.options(p.workers)...)
				if err != nil {
					c.Fail("api-error", "New: %v", err)
					return
				}
				defer func() {
					sim.rest()
					sim.closing.Store(true)
					if err := prov.Close(); err != nil {
						c.Fail("api-error", "Close: %v", err)
					}
				}()
				if !c.Check(sim.waitOnline(prov), "online-after-start", "provider not online / prefix length not measured 20 s after New with a healthy router") {
					return
				}
				keys := vC17PickKeys(c, p.nKeys, p.singlePrefixKeys)
				calls := 1 + c.R.Intn(3)
				if calls > len(keys) {
					calls = len(keys)
				}
				at := sim.now()
				for i := 0; i < calls; i++ {
					at += time.Duration(1+c.R.Intn(240000)) * time.Millisecond
					sim.sleepUntil(at)
					sim.start(prov, c.R.Intn(2) == 0, keys[i*len(keys)/calls:(i+1)*len(keys)/calls])
				}
				if c.R.Intn(2) == 0 {
					sim.once(prov, vC17PickKeys(c, 1+c.R.Intn(20), false))
				}
				var stopped []int32
				for _, e := range script {
					sim.sleepUntil(e.at)
					switch e.kind {
					case "grow", "shrink", "redraw":
						if !sim.rest() {
							c.Obs("rest_point_not_found", 1)
							continue
						}
						cur := sim.members()
						n := len(cur)
						switch e.kind {
						case "grow":
							n *= e.arg
						case "shrink":
							n = (n + e.arg - 1) / e.arg
						default:
							// new size log-uniform within [n/4, 4n] (the growth a region split absorbs within
							// the provider's lookup cap), at most 2000, clustered swarms at most vC17MaxClustered
							lo, hi := (n+3)/4, 4*n
							if lo < 1 {
								lo = 1
							}
							if hi > 2000 {
								hi = 2000
							}
							if p.clusteredSwarm && hi > vC17MaxClustered {
								hi = vC17MaxClustered
							}
							n = int(float64(lo)*math.Pow(float64(hi)/float64(lo), float64(e.arg)/float64(1<<20)) + 0.5)
						}
						var next []int32
						if n >= len(cur) {
							next = append(append(next, cur...), vC17PickPeers(c, n-len(cur), p.clusteredSwarm, in)...)
						} else {
							perm := c.R.Perm(len(cur))
							for _, i := range perm[:n] {
								next = append(next, cur[i])
							}
							for _, i := range perm[n:] {
								delete(in, cur[i])
							}
						}
						before := sim.scheduleSize(prov)
						sim.churn(next)
						c.Logf("+%v swarm %d -> %d peers (schedule holds %d regions: %s)", sim.now().Round(time.Second), len(cur), len(next), before, sim.schedulePrefixes(prov))
						c.Obs("swarm_changes", 1)
					case "stop":
						var part []int32
						for i, k := range keys {
							if i%e.arg == 0 && sim.kept(k) {
								part = append(part, k)
							}
						}
						if len(part) > 0 {
							sim.stop(prov, part)
							stopped = append(stopped, part...)
						}
					case "restart-keys":
						if len(stopped) > 0 {
							sim.start(prov, false, stopped[:(len(stopped)+1)/2])
						}
					case "addrs":
						if sim.rest() {
							sim.setAddrs(3)
							c.Logf("+%v own addresses changed", sim.now().Round(time.Second))
						}
					}
					c.ObsMax("schedule_regions", sim.scheduleSize(prov))
				}
				sim.sleepUntil(total)
				sim.rest()
				c.ObsMax("schedule_regions", sim.scheduleSize(prov))
				end = sim.now()
			})
			if sim == nil || end == 0 {
				return
			}
			v := sim.evaluate(end, true)
			c.Obs("cycles_observed", int(end/vC17Interval))
			if v.windowsJudged > 0 && end >= 3*vC17Interval {
				c.Nontrivial(p.String() + sb.String())
			}
		})
}

// ---- unit: outage ---------------------------------------------------------------------------

func TestVerif_C17_outage(t *testing.T) {
	vh.Run(t, vh.Spec{Prop: "C17", Unit: "outage", Quick: 24, Thorough: 700, CostMs: 80,
		Rule:    "PRNG scenario: 100-1500 peers, 20-400 keys started in the first minutes; after 40-100 min router and peers fail for 1.2-2.8 h (longer than interval + max delay, so every region misses its slot), offline delay 30 min / 2 h (default) / 4 h (Disconnected only); then 1.4 h online; oracle: windows before the outage, complete re-advertisement of every kept key within the catch-up bound, windows afterwards; every 4th case: outage of 3-25 min instead (shorter than every offline delay), windows that meet it end at the catch-up bound after it at the earliest; every 2nd of the long and of the short outages: 5-40 fresh ProvideOnce and 5-40 fresh StartProviding keys handed over 1-20 s after the outage began (advertised within 1 h of its end unless the provider went Offline, which clears the queue) and 10-40 fresh keys started once the provider is Offline (kept from the end of the outage on); non-trivial = the provider noticed the outage (left Online) and catch-up (short outage: a window) was judged for >= 1 key; distinct by parameter tuple",
		Clauses: []string{"selfcheck", "provide-bound", "catch-up", "reprovide-window", "recipient-reported"}},
		func(c *vh.Case) {
			if !vC17SelfCheck(c) {
				return
			}
			p := vC17RandParams(c, 100, 1500, 400)
			if p.nKeys < 20 {
				p.nKeys = 20 + c.R.Intn(100)
			}
			offDelay := []time.Duration{30 * time.Minute, DefaultOfflineDelay, 4 * time.Hour}[c.R.Intn(3)]
			o := time.Duration(40+c.R.Intn(61)) * time.Minute
			u := o + time.Duration(72+c.R.Intn(97))*time.Minute
			// every 4th case: an outage shorter than the smallest offline delay (the provider gets
			// Disconnected at most, only the regions whose slot falls into the outage are late);
			// every 2nd long and every 2nd short case: fresh keys are handed over right after the outage
			// began and, once the provider is Offline, again
			short, handover := c.Idx%4 == 3, c.Idx%4 == 1 || c.Idx%8 == 3
			if short {
				u = o + time.Duration(3+c.R.Intn(23))*time.Minute
			}
			total := u + 84*time.Minute
			c.Set("outage", fmt.Sprintf("[+%v, +%v] offline delay %v, hand-overs during the outage: %v", o, u, offDelay, handover))
			var sim *vC17Sim
			var end time.Duration
			noticed, wentOffline := false, false
			var offlineAt atomic.Int64 // virtual time of the provider's Offline transition (callback), 0 = never
			c.Bubble(t, 16*time.Hour, "hang", func(t *testing.T) {
				sim = vC17NewSim(c, p.r, p.deadPct, p.routerLat, p.sendLat, vC17PickPeers(c, p.N, p.clusteredSwarm, map[int32]bool{}))
				sim.describeCase(p)
				prov, err := New(sim.options(p.workers, WithOfflineDelay(offDelay), WithConnectivityCallbacks(nil, nil, func() {
					offlineAt.CompareAndSwap(0, int64(sim.now())+1)
				}))...)
				if err != nil {
					c.Fail("api-error", "New: %v", err)
					return
				}
				defer func() {
					sim.rest()
					sim.closing.Store(true)
					if err := prov.Close(); err != nil {
						c.Fail("api-error", "Close: %v", err)
					}
				}()
				if !c.Check(sim.waitOnline(prov), "online-after-start", "provider not online / prefix length not measured 20 s after New with a healthy router") {
					return
				}
				keys := vC17PickKeys(c, p.nKeys, p.singlePrefixKeys)
				sim.sleepUntil(time.Duration(30+c.R.Intn(200)) * time.Second)
				sim.start(prov, true, keys)
				sim.sleepUntil(o)
				sim.rest()
				o = sim.now()
				sim.outage.Store(true)
				c.Logf("+%v outage begins (router and peers unreachable)", o.Round(time.Second))
				used := map[int32]bool{}
				for _, k := range keys {
					used[k] = true
				}
				fresh := func(n int) []int32 {
					var out []int32
					for _, i := range c.R.Perm(len(sim.pool.keys)) {
						if len(out) >= n {
							break
						}
						if !used[int32(i)] {
							used[int32(i)] = true
							out = append(out, int32(i))
						}
					}
					return out
				}
				// x1: ProvideOnce, x2: StartProviding right after the outage began (the provider still
				// believes it is online or is Disconnected); x3: StartProviding while the provider is Offline
				var x1, x2, x3 []int32
				if handover {
					time.Sleep(time.Duration(1+c.R.Intn(20)) * time.Second)
					x1, x2 = fresh(5+c.R.Intn(36)), fresh(5+c.R.Intn(36))
					c.Logf("+%v during the outage (provider online=%v): ProvideOnce(%d fresh keys), StartProviding(%d fresh keys)", sim.now().Round(time.Millisecond), prov.connectivity.IsOnline(), len(x1), len(x2))
					if err := prov.ProvideOnce(sim.mhs(x1)...); err != nil {
						c.Fail("api-error", "ProvideOnce: %v", err)
					}
					before, tc := sim.scheduleKeys(prov), sim.now()
					if err := prov.StartProviding(c.R.Intn(2) == 0, sim.mhs(x2)...); err != nil {
						c.Fail("api-error", "StartProviding: %v", err)
					}
					sim.noteMerges(tc, before, sim.scheduleKeys(prov))
				}
				for sim.now() < u {
					step := 10 * time.Minute
					if short && u-sim.now() < step {
						step = u - sim.now()
					}
					time.Sleep(step)
					sim.sampleCursor(prov)
					if !prov.connectivity.IsOnline() {
						noticed = true
					}
					if prov.isOffline() {
						wentOffline = true
					}
					if handover && x3 == nil && offlineAt.Load() != 0 && prov.isOffline() && u-sim.now() > time.Minute {
						x3 = fresh(10 + c.R.Intn(31))
						c.Logf("+%v during the outage (provider Offline since +%v): StartProviding(%d fresh keys)", sim.now().Round(time.Millisecond), time.Duration(offlineAt.Load()).Round(time.Second), len(x3))
						before, tc := sim.scheduleKeys(prov), sim.now()
						if err := prov.StartProviding(false, sim.mhs(x3)...); err != nil {
							c.Fail("api-error", "StartProviding: %v", err)
						}
						sim.noteMerges(tc, before, sim.scheduleKeys(prov))
						c.Obs("keys_started_while_offline", len(x3))
					}
				}
				synctest.Wait()
				u = sim.now()
				sim.outage.Store(false)
				// let the provider notice (probes back off to one minute at most)
				for i := 0; i < 240 && !prov.connectivity.IsOnline(); i++ {
					time.Sleep(time.Second)
				}
				backOnline := prov.connectivity.IsOnline()
				sim.mu.Lock()
				if short {
					sim.shortOut = append(sim.shortOut, [2]time.Duration{o, u})
				} else {
					sim.blocked = append(sim.blocked, [2]time.Duration{o, u})
				}
				// keys started during the outage are in the keystore: kept from the end of the outage on
				// (whatever the provider's state was at the hand-over, they are scheduled by then at the
				// latest - RefreshSchedule on the way back from Offline), judged by the window oracle
				for _, k := range append(append([]int32(nil), x2...), x3...) {
					m := sim.km(k)
					m.segs = append(m.segs, vC17Seg{s: u + 1, open: true})
				}
				// keys handed over right after the outage began wait in the provide queue (a failed provide
				// puts them back) unless the provider went Offline meanwhile, which clears the queue
				if handover && backOnline && offlineAt.Load() == 0 {
					for i, k := range append(append([]int32(nil), x1...), x2...) {
						note := "handed to StartProviding right after the outage began"
						if i < len(x1) {
							note = "handed to ProvideOnce right after the outage began"
						}
						sim.deferred = append(sim.deferred, vC17Deferred{k: k, lo: u, hi: u + vC17CatchUpBound + vC17ProvideBound, note: note})
					}
					c.Obs("keys_queued_through_outage", len(x1)+len(x2))
				}
				sim.mu.Unlock()
				c.Logf("+%v outage ends (noticed=%v, went Offline=%v, back online after %v: %v)", u.Round(time.Second), noticed, wentOffline, (sim.now() - u).Round(time.Second), backOnline)
				sim.sampleCursor(prov)
				for handover && sim.now()+5*time.Minute < total {
					time.Sleep(5 * time.Minute)
					sim.sampleCursor(prov)
				}
				sim.sleepUntil(total)
				sim.rest()
				end = sim.now()
			})
			if sim == nil || end == 0 {
				return
			}
			v := sim.evaluate(end, true)
			if wentOffline {
				c.Obs("went_offline", 1)
			}
			if short {
				c.Obs("short_outages", 1)
			}
			if noticed && (v.catchupJudged > 0 || short && v.windowsJudged > 0) {
				c.Nontrivial(p.String() + fmt.Sprintf(" outage=%v offdelay=%v offline=%v handover=%v", u-o, offDelay, wentOffline, handover))
			}
		})
}

// ---- unit: restart --------------------------------------------------------------------------

// vC17QueueKeys lists the keys held by a provide queue (through a persisted copy, the queue itself
// is left untouched).
func vC17QueueKeys(q *queue.ProvideQueue) ([]mh.Multihash, error) {
	scratch := dssync.MutexWrap(ds.NewMapDatastore())
	if err := q.Persist(context.Background(), scratch, 64); err != nil {
		return nil, err
	}
	cp := queue.NewProvideQueue()
	if err := cp.DrainDatastore(context.Background(), scratch); err != nil {
		return nil, err
	}
	var out []mh.Multihash
	for {
		_, keys, ok := cp.Dequeue()
		if !ok {
			return out, nil
		}
		out = append(out, keys...)
	}
}

func TestVerif_C17_restart(t *testing.T) {
	vh.Run(t, vh.Spec{Prop: "C17", Unit: "restart", Quick: 24, Thorough: 700, CostMs: 60,
		Rule:    "PRNG scenario: 300-1500 peers, 20-400 ProvideOnce keys + 0-200 StartProviding keys (none in every third case) handed to a first provider whose provide queue cannot drain before Close (one worker, 1-3 connections, recipients taking 150-400 ms; Close 1-40 s or 0-50 ms after the hand-over); queue content sampled right before Close; a second provider on the same datastore/keystore with resume (default) must advertise every sampled key completely within 30 virtual minutes and, over the 2.4 virtual hours it runs, re-advertise every key of the keystore (the StartProviding keys) in every window of interval + max delay + slack; every fourth case runs both instances in no-schedule mode (reprovide interval 0: no window obligation, the resume obligation unchanged); non-trivial = >= 1 key was still queued at Close; distinct by parameter tuple + queued count",
		Clauses: []string{"selfcheck", "restart-resume", "recipient-reported", "payload"}},
		func(c *vh.Case) {
			if !vC17SelfCheck(c) {
				return
			}
			p := vC17RandParams(c, 300, 1500, 400)
			if p.nKeys < 20 {
				p.nKeys = 20 + c.R.Intn(200)
			}
			p.routerLat = 0 // Close overlaps work in flight: no virtual sleep under the connectivity mutex
			p.sendLat = time.Duration(150+c.R.Intn(250)) * time.Millisecond
			w1 := vC17Workers{1, 0, 0, 1 + c.R.Intn(3)}
			nStart := c.R.Intn(201)
			if c.Idx%3 == 1 {
				nStart = 0 // empty keystore: nothing but the persisted queue can make the second instance advertise
			}
			closeAfter := time.Duration(c.R.Intn(50)) * time.Millisecond
			if c.Idx%2 == 0 {
				closeAfter = time.Duration(1+c.R.Intn(40)) * time.Second
			}
			// every fourth case: both instances in no-schedule mode (reprovide interval 0). No cycle exists there,
			// but "work still queued at Close is resumed after a restart" holds all the same.
			noSched := c.Idx%4 == 3
			var mode []Option
			if noSched {
				mode = []Option{WithReprovideInterval(0)}
			}
			c.Set("no_schedule_mode", noSched)
			c.Set("first_instance", fmt.Sprintf("workers 1/0/0 conns=%d, Close %v after hand-over, %d StartProviding keys", w1.conns, closeAfter, nStart))
			var sim *vC17Sim
			var queued, kept []int32
			isOnce := map[int32]bool{}
			var tRestart, end time.Duration
			c.Bubble(t, 6*time.Hour, "hang", func(t *testing.T) {
				sim = vC17NewSim(c, p.r, p.deadPct, p.routerLat, p.sendLat, vC17PickPeers(c, p.N, p.clusteredSwarm, map[int32]bool{}))
				sim.describeCase(p)
				shared := dssync.MutexWrap(ds.NewMapDatastore())
				provDs := namespace.Wrap(shared, ds.NewKey("prov"))
				ks1, err := keystore.NewKeystore(namespace.Wrap(shared, ds.NewKey("ks")))
				if err != nil {
					c.Fail("api-error", "NewKeystore: %v", err)
					return
				}
				prov1, err := New(sim.options(w1, append([]Option{WithDatastore(provDs), WithKeystore(ks1)}, mode...)...)...)
				if err != nil {
					c.Fail("api-error", "New: %v", err)
					return
				}
				if !c.Check(sim.waitOnline(prov1), "online-after-start", "provider not online / prefix length not measured 20 s after New with a healthy router") {
					sim.closing.Store(true)
					prov1.Close()
					ks1.Close()
					return
				}
				keys := vC17PickKeys(c, p.nKeys+nStart, false)
				onceKeys, startKeys := keys[:p.nKeys], keys[p.nKeys:]
				for _, k := range onceKeys {
					isOnce[k] = true
				}
				if len(startKeys) > 0 {
					prov1.StartProviding(true, sim.mhs(startKeys)...)
				}
				prov1.ProvideOnce(sim.mhs(onceKeys)...)
				c.Logf("+%v first instance: ProvideOnce(%d keys), StartProviding(%d keys)", sim.now().Round(time.Millisecond), len(onceKeys), len(startKeys))
				time.Sleep(closeAfter)
				synctest.Wait()
				qk, err := vC17QueueKeys(prov1.provideQueue)
				if err != nil {
					c.Fail("api-error", "sampling the provide queue: %v", err)
				}
				for _, k := range qk {
					if i, ok := sim.pool.keyIdx[string(k)]; ok {
						queued = append(queued, i)
					}
				}
				c.Logf("+%v Close with %d keys queued, %d ADD_PROVIDER sent so far", sim.now().Round(time.Millisecond), len(queued), sim.nSend)
				if err := prov1.Close(); err != nil {
					c.Fail("api-error", "Close: %v", err)
				}
				ks1.Close()
				sim.rest()
				time.Sleep(time.Duration(1+c.R.Intn(600)) * time.Second)

				// second instance: same datastore and keystore content, resume is the default
				sim.sendLat.Store(int64(time.Duration(c.R.Intn(2)) * 10 * time.Millisecond))
				ks2, err := keystore.NewKeystore(namespace.Wrap(shared, ds.NewKey("ks")))
				if err != nil {
					c.Fail("api-error", "NewKeystore: %v", err)
					return
				}
				tRestart = sim.now()
				w2 := vC17WorkerConfigs[c.R.Intn(len(vC17WorkerConfigs))]
				prov2, err := New(sim.options(w2, append([]Option{WithDatastore(provDs), WithKeystore(ks2)}, mode...)...)...)
				if err != nil {
					c.Fail("api-error", "New (restart): %v", err)
					ks2.Close()
					return
				}
				c.Logf("+%v second instance started (workers %d/%d/%d)", tRestart.Round(time.Millisecond), w2.max, w2.periodic, w2.burst)
				if !noSched {
					kept = startKeys
				}
				// two full reprovide windows: the keys of the keystore stay kept across the restart
				sim.sleepUntil(tRestart + 2*(vC17Interval+vC17MaxDelay+vC17SlackBase+vC17BatchCap) + time.Minute)
				sim.rest()
				end = sim.now()
				sim.closing.Store(true)
				if err := prov2.Close(); err != nil {
					c.Fail("api-error", "Close: %v", err)
				}
				ks2.Close()
			})
			if sim == nil || end == 0 {
				return
			}
			// obligation (4): every key queued at Close is advertised by the second instance
			sim.mu.Lock()
			for _, k := range queued {
				sim.km(k).provides = []time.Duration{tRestart}
			}
			// the keys handed to StartProviding in the first instance are in the keystore: kept (window
			// oracle) from the start of the second instance on
			for _, k := range kept {
				sim.km(k).segs = []vC17Seg{{s: tRestart, open: true}}
			}
			sim.provideClause, sim.provideSig = "restart-resume", "restart/not-resumed"
			sim.noteOf = func(k int32) string {
				if isOnce[k] {
					return "queued by ProvideOnce in the first instance, not in the keystore"
				}
				return "queued by StartProviding in the first instance, in the keystore"
			}
			sim.sigOf = func(k int32) string {
				if isOnce[k] && nStart == 0 {
					return "restart/not-resumed/provide-once-key/empty-keystore"
				}
				if isOnce[k] {
					return "restart/not-resumed/provide-once-key"
				}
				return "restart/not-resumed/kept-key"
			}
			sim.mu.Unlock()
			c.Obs("keys_queued_at_close", len(queued))
			if noSched {
				c.Obs("keys_queued_at_close_in_no_schedule_mode", len(queued))
			}
			c.Obs("keys_kept_across_restart", len(kept))
			sim.evaluate(end, true)
			if len(queued) > 0 {
				c.Nontrivial(p.String() + fmt.Sprintf(" queued=%d", len(queued)))
			}
		})
}
