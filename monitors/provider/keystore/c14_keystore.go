//go:build verif

package keystore

// C14 — keystore.Close / ResettableKeystore.Close.
//
//   keystore.Close: "shuts down the worker goroutine … persists the current size to the datastore
//   after the worker exits".
//   ResettableKeystore.Close: "waits for the worker to exit and for any in-flight altDs write
//   from ResetCids to finish before persisting state. In factory mode, the primary and (if
//   mid-reset) alternate datastores are closed".
//
// The stores run over the journaling datastore (plain store, shared-slot mode, factory mode);
// every datastore access takes a little virtual time (the keystore holds no mutex across
// datastore calls: the worker is a single goroutine, altDs is serialised by a channel token),
// so that worker operations and reset phases are "in flight" for a while. Clients issue
// Put/Get/Delete/Size/ContainsPrefix/CountKeysUpTo/Empty; a ResetCids may be running, fed by a
// producer. Close instants are enumerated over the boundary events (datastore accesses incl.
// factory create/destroy, call starts/returns) of a reference run.

import (
	"context"
	"errors"
	"fmt"
	"math/rand"
	"runtime"
	"runtime/debug"
	"sort"
	"strings"
	"sync"
	"sync/atomic"
	"testing"
	"testing/synctest"
	"time"

	"github.com/ipfs/go-cid"
	ds "github.com/ipfs/go-datastore"
	"github.com/ipfs/go-libdht/kad/key/bitstr"
	mh "github.com/multiformats/go-multihash"

	"github.com/libp2p/go-libp2p-kad-dht/internal/verif/vc14"
	"github.com/libp2p/go-libp2p-kad-dht/internal/verif/vh"
	"github.com/libp2p/go-libp2p-kad-dht/internal/verif/vjds"
)

const (
	vC14KsCloseBound = 3 * time.Second // Close waits for the worker's current operation (a few dozen accesses of <= 3 ms)
	vC14KsCloseHang  = 5 * time.Minute
	vC14KsOpBound    = 5 * time.Second
)

type vC14KsScn struct {
	Seed     int64
	Kind     string // plain | shared | factory
	Clients  int
	OpsEach  int
	Reset    bool
	ResetN   int
	BufCap   int
	Batch    int
	Prefill  int
	CancelRs bool // the reset's own context is cancelled at a PRNG instant
}

func (s vC14KsScn) String() string {
	return fmt.Sprintf("%s clients=%d ops=%d reset=%v(n=%d bufcap=%d cancel=%v) batch=%d prefill=%d", s.Kind, s.Clients, s.OpsEach, s.Reset, s.ResetN, s.BufCap, s.CancelRs, s.Batch, s.Prefill)
}

type vC14KsCall struct {
	What       string
	Start, Ret time.Duration
	AfterClose bool
	Err        error
	Panic      string
}

type vC14KsRes struct {
	Events     []vc14.Ev
	CloseIdx   int
	CloseLabel string
	Busy       string
	CloseTook  time.Duration
	ResetState string
}

func vC14KsMh(seed int64, i int) mh.Multihash {
	h, _ := mh.Sum([]byte(fmt.Sprintf("c14ks-%d-%d", seed%9973, i)), mh.SHA2_256, -1)
	return h
}

func vC14KsRun(t *testing.T, c *vh.Case, sc vC14KsScn, target int) *vC14KsRes {
	var res *vC14KsRes
	c.Bubble(t, 30*time.Minute, "close-hang", func(t *testing.T) {
		res = vC14KsRunInBubble(t, c, sc, target)
	})
	return res
}

func vC14KsRunInBubble(t *testing.T, c *vh.Case, sc vC14KsScn, target int) *vC14KsRes {
	r := rand.New(rand.NewSource(sc.Seed))
	res := &vC14KsRes{}
	tag := fmt.Sprintf("[%s close@%d] ", sc.Kind, target)
	base := vc14.Owned()
	c.Check(len(base) == 0, "baseline-clean", "%sinstance-owned goroutines before construction: %v", tag, vc14.Summary(base))
	bd := vc14.NewBoundary(max(target, 0), ").worker", ").ResetCids")

	j := vjds.NewJournal()
	lat := time.Duration(200+r.Intn(2800)) * time.Microsecond
	var closeReturned atomic.Bool
	var lateMu sync.Mutex
	var late []string
	armed := false
	j.Hook = func(e *vjds.Entry) error {
		if !armed {
			return nil
		}
		bd.Tick("ds", e.Store+" "+e.Op+" "+e.Key)
		if closeReturned.Load() {
			lateMu.Lock()
			late = append(late, fmt.Sprintf("+%v %s %s %s", bd.Since(), e.Store, e.Op, e.Key))
			lateMu.Unlock()
		}
		if vc14.OnStack(").ResetCids") != "" {
			time.Sleep(3 * lat) // a slow alternate store: reset writes outlast the worker's accesses
		} else {
			time.Sleep(lat)
		}
		return nil
	}
	meta := vjds.NewNamed(j, "meta")
	fac := vjds.NewFactory(j, nil)
	baseOpts := []Option{WithBatchSize(sc.Batch), WithPrefixBits(8)}
	var ks Keystore
	var rks *ResettableKeystore
	var err error
	armed = true
	switch sc.Kind {
	case "plain":
		ks, err = NewKeystore(meta, baseOpts...)
	case "shared":
		rks, err = NewResettableKeystore(meta, KeystoreOption(baseOpts...), WithResetBufferCapacity(sc.BufCap))
		ks = rks
	case "factory":
		rks, err = NewResettableKeystore(meta, KeystoreOption(baseOpts...), WithResetBufferCapacity(sc.BufCap), WithDatastoreFactory(fac.Create, fac.Destroy))
		ks = rks
	}
	if err != nil {
		panic(fmt.Sprintf("vC14: keystore constructor failed: %v", err))
	}
	var mu sync.Mutex
	var calls []*vC14KsCall
	var cwg sync.WaitGroup
	if sc.Prefill > 0 { // a first bulk Put, in flight from the start
		var pre []mh.Multihash
		for i := 0; i < sc.Prefill; i++ {
			pre = append(pre, vC14KsMh(sc.Seed, 1000+i))
		}
		cwg.Add(1)
		go func() {
			defer cwg.Done()
			call := &vC14KsCall{What: "Put(prefill)", AfterClose: closeReturned.Load(), Start: bd.Since()}
			_, call.Err = ks.Put(context.Background(), pre...)
			call.Ret = bd.Since()
			mu.Lock()
			calls = append(calls, call)
			mu.Unlock()
		}()
	}
	record := func(call *vC14KsCall) {
		mu.Lock()
		calls = append(calls, call)
		mu.Unlock()
	}
	for cl := 0; cl < sc.Clients; cl++ {
		type step struct {
			gap  time.Duration
			kind int
			keys []mh.Multihash
			pfx  bitstr.Key
		}
		var steps []step
		for i := 0; i < sc.OpsEach; i++ {
			st := step{gap: time.Duration(r.Intn(120)) * time.Millisecond, kind: r.Intn(10)}
			for k := 0; k < 1+r.Intn(6); k++ {
				st.keys = append(st.keys, vC14KsMh(sc.Seed, r.Intn(40)))
			}
			st.pfx = bitstr.Key([]string{"", "0", "1", "01", "110"}[r.Intn(5)])
			steps = append(steps, st)
		}
		cwg.Add(1)
		go func() {
			defer cwg.Done()
			for i, st := range steps {
				time.Sleep(st.gap)
				// every fourth call (no PRNG draw) runs on a context that its caller cancels one datastore access
				// time after the call began, i.e. usually while the worker is executing it: the caller leaves with
				// its context's error, and the worker must neither wedge on the abandoned answer nor block Close
				ctx, cancelCall := context.Background(), context.CancelFunc(func() {})
				var cancelTm *time.Timer
				if (cl*7+i)%4 == 3 {
					ctx, cancelCall = context.WithCancel(ctx)
					cancelTm = time.AfterFunc(lat, cancelCall)
				}
				call := &vC14KsCall{AfterClose: closeReturned.Load(), Start: bd.Since()}
				func() {
					defer func() {
						if pv := recover(); pv != nil {
							call.Panic = fmt.Sprintf("%v\n%s", pv, debug.Stack())
						}
						if cancelTm != nil {
							cancelTm.Stop()
						}
						cancelCall()
					}()
					switch {
					case st.kind < 4:
						call.What = "Put"
						bd.Tick("call", call.What)
						_, call.Err = ks.Put(ctx, st.keys...)
					case st.kind == 4:
						call.What = "Delete"
						bd.Tick("call", call.What)
						call.Err = ks.Delete(ctx, st.keys...)
					case st.kind == 5:
						call.What = "Get"
						bd.Tick("call", call.What)
						_, call.Err = ks.Get(ctx, st.pfx)
					case st.kind == 6:
						call.What = "Size"
						bd.Tick("call", call.What)
						_, call.Err = ks.Size(ctx)
					case st.kind == 7:
						call.What = "ContainsPrefix"
						bd.Tick("call", call.What)
						_, call.Err = ks.ContainsPrefix(ctx, st.pfx)
					case st.kind == 8:
						call.What = "CountKeysUpTo"
						bd.Tick("call", call.What)
						_, call.Err = ks.CountKeysUpTo(ctx, st.pfx, 3)
					default:
						call.What = "Empty"
						bd.Tick("call", call.What)
						call.Err = ks.Empty(ctx)
					}
				}()
				call.Ret = bd.Since()
				bd.Tick("ret", call.What)
				record(call)
			}
		}()
	}
	// reset in flight
	var resetCall *vC14KsCall
	if sc.Reset && rks != nil {
		startAt := time.Duration(r.Intn(150)) * time.Millisecond
		pace := time.Duration(r.Intn(4000)) * time.Microsecond
		cancelAt := time.Duration(r.Intn(400)) * time.Millisecond
		cwg.Add(1)
		go func() {
			defer cwg.Done()
			time.Sleep(startAt)
			rctx, rcancel := context.WithCancel(context.Background())
			defer rcancel()
			if sc.CancelRs {
				tm := time.AfterFunc(cancelAt, rcancel)
				defer tm.Stop()
			}
			ch := make(chan cid.Cid)
			prodDone := make(chan struct{})
			go func() { // producer: stops when the reset is over
				defer close(prodDone)
				defer close(ch)
				for i := 0; i < sc.ResetN; i++ {
					if pace > 0 {
						time.Sleep(pace)
					}
					select {
					case ch <- cid.NewCidV1(cid.Raw, vC14KsMh(sc.Seed, 20+i)):
					case <-rctx.Done():
						return
					}
				}
			}()
			call := &vC14KsCall{What: "ResetCids", AfterClose: closeReturned.Load(), Start: bd.Since()}
			bd.Tick("call", call.What)
			func() {
				defer func() {
					if pv := recover(); pv != nil {
						call.Panic = fmt.Sprintf("%v\n%s", pv, debug.Stack())
					}
				}()
				call.Err = rks.ResetCids(rctx, ch)
			}()
			call.Ret = bd.Since()
			bd.Tick("ret", call.What)
			rcancel()
			<-prodDone
			mu.Lock()
			resetCall = call
			mu.Unlock()
			record(call)
		}()
	}
	clientsDone := make(chan struct{})
	go func() { cwg.Wait(); close(clientsDone) }()
	settled := make(chan struct{})
	go func() {
		tm := time.NewTimer(3 * time.Minute) // calls that never return must not keep the reference run from closing
		defer tm.Stop()
		select {
		case <-clientsDone:
			time.Sleep(time.Second)
		case <-tm.C:
		}
		close(settled)
	}()
	if target < 0 {
		bd.FireNow()
	}
	select {
	case <-bd.Fire:
	case <-settled:
		bd.FireNow()
	}
	evs := bd.Events()
	res.CloseIdx = len(evs)
	if n := len(evs); n > 0 {
		res.CloseLabel, res.Busy = evs[n-1].Kind+" "+evs[n-1].Label, evs[n-1].Owner
	}
	mu.Lock()
	switch {
	case !sc.Reset || rks == nil:
		res.ResetState = "none"
	case resetCall != nil:
		res.ResetState = "finished"
	default:
		res.ResetState = "running-or-pending"
	}
	mu.Unlock()
	doClose := func(what string) (time.Duration, error) {
		t0 := bd.Since()
		type out struct {
			err error
			pv  string
		}
		ret := make(chan out, 1)
		go func() {
			var o out
			defer func() {
				if pv := recover(); pv != nil {
					o.pv = fmt.Sprintf("%v\n%s", pv, debug.Stack())
				}
				ret <- o
			}()
			o.err = ks.Close()
		}()
		tm := time.NewTimer(vC14KsCloseHang)
		defer tm.Stop()
		select {
		case o := <-ret:
			if o.pv != "" {
				c.FailSig("close-panic", "panic@"+vh.TopRepoFrame([]byte(o.pv)), "%s%s panicked (%s; closed at event #%d %q): %s", tag, what, sc, res.CloseIdx, res.CloseLabel, o.pv)
			}
			return bd.Since() - t0, o.err
		case <-tm.C:
			buf := make([]byte, 1<<22)
			buf = buf[:runtime.Stack(buf, true)]
			c.FailSig("close-hang", vC14KsHangSig(buf), "%s%s did not return within %v (%s; closed at event #%d %q, reset %s); goroutines:\n%s", tag, what, vC14KsCloseHang, sc, res.CloseIdx, res.CloseLabel, res.ResetState, vh.FilterBubble(buf))
			c.ExitNow()
			return 0, nil
		}
	}
	took, cerr := doClose("Close")
	closeReturned.Store(true)
	closeRet := bd.Since()
	res.CloseTook = took
	c.Check(took <= vC14KsCloseBound && cerr == nil, "close-returns-in-bound", "%sClose took %v (bound %v), returned %v (%s; closed at event #%d %q, reset %s)", tag, took, vC14KsCloseBound, cerr, sc, res.CloseIdx, res.CloseLabel, res.ResetState)
	synctest.Wait()
	cA := vc14.Owned()
	c.Check(len(cA) == 0, "no-goroutine-after-close", "%sgoroutines of the keystore alive after Close returned (%s; closed at event #%d %q, busy %q, reset %s): %v\n%s", tag, sc, res.CloseIdx, res.CloseLabel, res.Busy, res.ResetState, vc14.Summary(cA), vc14.Dump(cA, 3))
	for k := 2; k <= 3; k++ {
		tk, e := doClose(fmt.Sprintf("Close #%d", k))
		c.Check(tk <= vC14KsCloseBound && e == nil, "close-again-returns", "%sClose #%d took %v, returned %v", tag, k, tk, e)
	}
	tm := time.NewTimer(2 * time.Minute)
	select {
	case <-clientsDone:
	case <-tm.C:
		buf := make([]byte, 1<<22)
		buf = buf[:runtime.Stack(buf, true)]
		c.FailSig("op-returns", "op-returns/stuck@"+vh.BlockedRepoFrame(buf), "%sclient calls / ResetCids still running 2 virtual minutes after Close (%s; closed at event #%d %q, reset %s)\n%s", tag, sc, res.CloseIdx, res.CloseLabel, res.ResetState, vh.FilterBubble(buf))
		c.ExitNow()
	}
	tm.Stop()
	mu.Lock()
	nLate, nInFlight := 0, 0
	for _, cl := range calls {
		c.Check(cl.Panic == "", "op-no-panic", "%s%s (+%v) panicked: %s", tag, cl.What, cl.Start, cl.Panic)
		if closeStart := closeRet - took; cl.Start <= closeStart && cl.Ret >= closeStart { // in flight when Close started: ends promptly
			nInFlight++
			c.Check(cl.Ret-closeRet <= time.Second, "interrupted-op-returns", "%s%s started +%v returned +%v, %v after Close returned (+%v) with %v", tag, cl.What, cl.Start, cl.Ret, cl.Ret-closeRet, closeRet, cl.Err)
		}
		if cl.AfterClose {
			nLate++
			// operations document ErrClosed; ResetCids only has to fail (it may report its own derived context as cancelled)
			okErr := errors.Is(cl.Err, ErrClosed) || (cl.What == "ResetCids" && cl.Err != nil)
			c.Check(okErr && cl.Ret-cl.Start <= time.Second, "late-call-errclosed", "%s%s started +%v, after Close returned (+%v), returned %v after %v instead of ErrClosed at once", tag, cl.What, cl.Start, closeRet, cl.Err, cl.Ret-cl.Start)
			if cl.What == "ResetCids" && !errors.Is(cl.Err, ErrClosed) {
				c.Obs("late_resetcids_not_errclosed", 1)
			}
		}
	}
	mu.Unlock()
	time.Sleep(2 * time.Minute)
	synctest.Wait()
	cB := vc14.Owned()
	if !c.Check(len(cB) == 0, "no-goroutine-after-2min", "%sgoroutines of the keystore 2 virtual minutes after Close: %v\n%s", tag, vc14.Summary(cB), vc14.Dump(cB, 3)) {
		c.ExitNow()
	}
	lateMu.Lock()
	c.Check(len(late) == 0, "datastore-fenced", "%sdatastore accessed after Close returned (+%v; %s; closed at event #%d %q, reset %s): %v", tag, closeRet, sc, res.CloseIdx, res.CloseLabel, res.ResetState, late)
	lateMu.Unlock()
	res.Events = evs
	c.Obs("runs", 1)
	c.Obs("boundary_events", len(evs))
	c.Obs("journal_entries", j.Len())
	c.Obs("client_calls", len(calls))
	c.Obs("client_calls_after_close", nLate)
	c.Obs("client_calls_in_flight_at_close", nInFlight)
	if res.ResetState == "running-or-pending" {
		c.Obs("closes_with_reset_in_flight", 1)
	}
	if res.Busy != "" {
		c.Obs("closes_on_busy_worker_or_reset", 1)
	}
	return res
}

func vC14KsCase(t *testing.T, c *vh.Case, sc vC14KsScn) {
	c.Set("scenario", sc.String())
	c.Set("seed", sc.Seed)
	ref := vC14KsRun(t, c, sc, 0)
	idxs := vc14.PickIndices(c.R, ref.Events, 2, 2, c.Tier == "thorough", 80)
	var resetEvs []int // always include instants inside ResetCids' own datastore work
	for _, e := range ref.Events {
		if e.Owner == ").ResetCids" {
			resetEvs = append(resetEvs, e.Idx)
		}
	}
	for k := 0; k < 2 && len(resetEvs) > 0; k++ {
		idxs = append(idxs, resetEvs[c.R.Intn(len(resetEvs))])
	}
	sort.Ints(idxs)
	idxs = slicesCompact(idxs)
	c.Set("close_indices", idxs)
	c.Logf("reference run: %d boundary events, Close after everything took %v", len(ref.Events), ref.CloseTook)
	var sigs []string
	for _, i := range idxs {
		if i > len(ref.Events) {
			continue
		}
		tg := i
		if i == 0 {
			tg = -1
		}
		res := vC14KsRun(t, c, sc, tg)
		c.Logf("close@%d: event #%d %q busy=%q reset=%s took %v", tg, res.CloseIdx, res.CloseLabel, res.Busy, res.ResetState, res.CloseTook)
		if res.Busy != "" {
			parts := strings.Fields(res.CloseLabel)
			k := res.CloseLabel
			if len(parts) >= 3 {
				k = parts[1] + " " + parts[2]
			}
			sigs = append(sigs, fmt.Sprintf("%s/%s/%s", k, res.Busy, res.ResetState))
		}
	}
	if len(sigs) > 0 {
		sort.Strings(sigs)
		c.Nontrivial(fmt.Sprintf("%s/%s", sc.Kind, strings.Join(sigs, ",")))
	}
}

func TestVerif_C14_keystore(t *testing.T) {
	vh.Run(t, vh.Spec{Prop: "C14", Unit: "keystore", Quick: 60, Thorough: 2500, CostMs: 40,
		Rule:    "PRNG plain keystore over the journaling datastore (every access 0.2-3 ms of virtual time, batch size 2-16, a first bulk Put of 0-12 keys) with 1-4 clients issuing 2-7 Put/Delete/Get/Size/ContainsPrefix/CountKeysUpTo/Empty (every fourth call on a context its caller cancels one access time after the call began); reference run counts boundary events, re-runs Close immediately after construction (worker still in loadSize), at 2 events on the worker's stack and 2 PRNG indices (thorough: all, <= 80); non-trivial = Close while the worker was inside an operation",
		Clauses: []string{"baseline-clean", "close-returns-in-bound", "no-goroutine-after-close", "close-again-returns", "op-no-panic", "late-call-errclosed", "no-goroutine-after-2min", "datastore-fenced"}},
		func(c *vh.Case) {
			r := c.R
			sc := vC14KsScn{Seed: r.Int63(), Kind: "plain", Clients: 1 + r.Intn(4), OpsEach: 2 + r.Intn(6), Batch: 2 + r.Intn(15), Prefill: r.Intn(13)}
			vC14KsCase(t, c, sc)
		})
}

func TestVerif_C14_resettable(t *testing.T) {
	vh.Run(t, vh.Spec{Prop: "C14", Unit: "resettable", Quick: 80, Thorough: 3000, CostMs: 60,
		Rule:    "PRNG ResettableKeystore (shared-slot or factory mode, reset buffer capacity 1-64, batch size 2-16) with 1-3 clients and, in 80% of the cases, one ResetCids of 5-60 CIDs fed at 0-4 ms per CID (its own context cancelled at a PRNG instant in 20%); accesses on the ResetCids goroutine take 3x longer (slow alternate store); Close instants enumerated as for the plain store plus 2 events on ResetCids' stack, i.e. in every reset phase (prepare, bulk, refresh, catch-up, cleanup/swap, teardown) and with the worker back-pressured on a full buffer; non-trivial = Close on an event of the worker's or ResetCids' stack",
		Clauses: []string{"baseline-clean", "close-returns-in-bound", "no-goroutine-after-close", "close-again-returns", "op-no-panic", "interrupted-op-returns", "late-call-errclosed", "no-goroutine-after-2min", "datastore-fenced"}},
		func(c *vh.Case) {
			r := c.R
			sc := vC14KsScn{Seed: r.Int63(), Kind: []string{"shared", "factory"}[r.Intn(2)], Clients: 1 + r.Intn(3), OpsEach: 2 + r.Intn(6), Batch: 2 + r.Intn(15), Prefill: r.Intn(13),
				Reset: r.Intn(5) > 0, ResetN: 5 + r.Intn(56), BufCap: []int{1, 2, 4, 64}[r.Intn(4)], CancelRs: r.Intn(5) == 0}
			vC14KsCase(t, c, sc)
		})
}

func TestVerif_C14_keystore_ctor(t *testing.T) {
	vh.Run(t, vh.Spec{Prop: "C14", Unit: "keystore_ctor", Quick: 30, Thorough: 300, CostMs: 3,
		Rule:    "keystore constructors failing at an enumerated point: invalid base option, invalid reset option, active-marker read error, corrupted marker whose correction fails, factory create failure; oracle: error returned, no goroutine of the package left, no datastore access after the constructor returned; all cases non-trivial",
		Clauses: []string{"ctor-returns-error", "ctor-fail-no-goroutine"}},
		func(c *vh.Case) {
			points := []string{"base-option", "reset-option", "marker-read", "marker-fix", "factory-create", "plain-option"}
			pt := points[c.Idx%len(points)]
			c.Set("point", pt)
			c.Bubble(t, 10*time.Minute, "ctor-hang", func(t *testing.T) {
				j := vjds.NewJournal()
				meta := vjds.NewNamed(j, "meta")
				fac := vjds.NewFactory(j, nil)
				injected := errors.New("vC14: injected datastore failure")
				var err error
				var ks Keystore
				switch pt {
				case "plain-option":
					ks, err = NewKeystore(meta, WithBatchSize(0))
				case "base-option":
					var r *ResettableKeystore
					r, err = NewResettableKeystore(meta, KeystoreOption(WithPrefixBits(7)))
					if r != nil {
						ks = r
					}
				case "reset-option":
					var r *ResettableKeystore
					r, err = NewResettableKeystore(meta, WithResetBufferCapacity(0))
					if r != nil {
						ks = r
					}
				case "marker-read":
					j.Hook = func(e *vjds.Entry) error {
						if e.Op == vjds.OpGet {
							return injected
						}
						return nil
					}
					var r *ResettableKeystore
					r, err = NewResettableKeystore(meta)
					if r != nil {
						ks = r
					}
				case "marker-fix":
					meta.Put(context.Background(), activeNamespaceKey, []byte{7, 7})
					j.Hook = func(e *vjds.Entry) error {
						if e.Op == vjds.OpPut {
							return injected
						}
						return nil
					}
					var r *ResettableKeystore
					r, err = NewResettableKeystore(meta)
					if r != nil {
						ks = r
					}
				case "factory-create":
					j.Hook = func(e *vjds.Entry) error {
						if e.Op == vjds.OpCreate {
							return injected
						}
						return nil
					}
					var r *ResettableKeystore
					r, err = NewResettableKeystore(meta, WithDatastoreFactory(fac.Create, fac.Destroy))
					if r != nil {
						ks = r
					}
				}
				if !c.Check(err != nil && ks == nil, "ctor-returns-error", "constructor succeeded although failure point %q was armed", pt) {
					if ks != nil {
						ks.Close()
					}
					return
				}
				c.Logf("constructor failed as planned at %q: %v", pt, err)
				n0 := j.Len()
				time.Sleep(time.Second)
				synctest.Wait()
				cs := vc14.Owned()
				ok := c.Check(len(cs) == 0 && j.Len() == n0, "ctor-fail-no-goroutine", "failure point %q: goroutines %v, %d datastore accesses after the constructor returned %q", pt, vc14.Summary(cs), j.Len()-n0, err)
				if !ok && len(cs) > 0 {
					c.ExitNow()
				}
				c.Nontrivial(pt)
			})
		})
}

// vC14KsHangSig names the known cause "worker blocked answering an opStart whose ResetCids has
// already returned on its cancelled context" with a stable signature of its own.
func vC14KsHangSig(dump []byte) string {
	for _, g := range vh.Goroutines(dump) {
		if strings.Contains(g, "chan send") && strings.Contains(g, "(*ResettableKeystore).handleResetOp") {
			return "resetcids-cancelled-during-start-wedges-worker"
		}
	}
	return "close-hang@" + vh.BlockedRepoFrame(dump)
}

func slicesCompact(a []int) []int {
	out := a[:0]
	for i, v := range a {
		if i == 0 || v != a[i-1] {
			out = append(out, v)
		}
	}
	return out
}

var _ = ds.ErrNotFound
