//go:build verif

package keystore

// C20 — keystore contents are exact, durable, and replaced atomically by reset.
//
// Shared machinery (this file): an independent key arithmetic (Kademlia id = sha256(multihash),
// as a bit string), a pool of multihashes with long common id prefixes, a set model, the three
// keystore kinds (plain, resettable shared mode, resettable factory mode) opened on vjds stores,
// journal replay into crash states, and the units
//
//	model  — lock-step set model on PRNG histories with clean restarts and sequential resets
//	crash  — crash at every write boundary of such histories, subset and prefix crash models
//	faults — one injected datastore error at every access index of a history
//
// c20_reset.go holds the units `reset` (concurrent puts steered into the phases of a reset,
// crash at every write boundary) and `concurrent` (-race).

import (
	"bytes"
	"context"
	"crypto/sha256"
	"encoding/binary"
	"fmt"
	"math/rand"
	"sort"
	"strings"
	"sync"
	"testing"

	"github.com/ipfs/go-cid"
	"github.com/ipfs/go-libdht/kad/key/bitstr"
	logging "github.com/ipfs/go-log/v2"
	mh "github.com/multiformats/go-multihash"

	"github.com/libp2p/go-libp2p-kad-dht/internal/verif/vh"
	"github.com/libp2p/go-libp2p-kad-dht/internal/verif/vjds"
)

// ---- independent key arithmetic and the key pool ------------------------------------------------

// vC20BitsOf returns the 256 bits of the Kademlia identifier of a multihash (sha256 of its bytes).
func vC20BitsOf(h []byte) string {
	s := sha256.Sum256(h)
	var sb strings.Builder
	for _, b := range s {
		fmt.Fprintf(&sb, "%08b", b)
	}
	return sb.String()
}

type vC20Pool struct {
	keys []string          // string(multihash), pool order
	bits map[string]string // string(multihash) -> 256 id bits
}

var (
	vC20PoolOnce sync.Once
	vC20PoolV    *vC20Pool
)

// vC20GetPool builds (once per process, deterministically) 44 multihashes: three clusters of
// neighbours in id order among 2^17 candidates (ids sharing 17 and more leading bits, two of the
// clusters close to each other) and 20 unrelated ones. Long common prefixes make prefix queries
// around prefixBits = 8 / 16 discriminate.
func vC20GetPool() *vC20Pool {
	vC20PoolOnce.Do(func() {
		logging.SetAllLoggers(logging.LevelFatal) // injected errors are logged by the keystore; keep batch logs small
		const n = 1 << 17
		type ent struct {
			id [32]byte
			i  uint32
		}
		mk := func(i uint32) mh.Multihash {
			var b [8]byte
			binary.BigEndian.PutUint64(b[:], uint64(i))
			d := sha256.Sum256(b[:])
			h, err := mh.Encode(d[:], mh.SHA2_256)
			if err != nil {
				panic(err)
			}
			return h
		}
		ents := make([]ent, n)
		for i := range ents {
			ents[i] = ent{sha256.Sum256(mk(uint32(i))), uint32(i)}
		}
		sort.Slice(ents, func(a, b int) bool { return bytes.Compare(ents[a].id[:], ents[b].id[:]) < 0 })
		p := &vC20Pool{bits: map[string]string{}}
		add := func(i uint32) {
			h := string(mk(i))
			if _, ok := p.bits[h]; ok {
				return
			}
			p.bits[h] = vC20BitsOf([]byte(h))
			p.keys = append(p.keys, h)
		}
		for k := 0; k < 10; k++ {
			add(ents[n/3+k].i)
		}
		for k := 0; k < 8; k++ {
			add(ents[n/3+200+k].i)
		}
		for k := 0; k < 6; k++ {
			add(ents[2*n/3+k].i)
		}
		for i := 0; i < 20; i++ {
			add(uint32(i))
		}
		vC20PoolV = p
	})
	return vC20PoolV
}

func vC20Cpl(a, b string) int {
	n := 0
	for n < len(a) && n < len(b) && a[n] == b[n] {
		n++
	}
	return n
}

// vC20Universe draws the multihashes of one case (8-40 of the pool).
func vC20Universe(r *rand.Rand, p *vC20Pool) []string {
	n := 8 + r.Intn(33)
	perm := r.Perm(len(p.keys))
	u := make([]string, 0, n)
	for _, i := range perm[:n] {
		u = append(u, p.keys[i])
	}
	return u
}

// vC20RandPrefix draws a query prefix: mostly lengths around prefixBits, sometimes the common
// prefix of two keys (+1), sometimes with the last bit flipped (sibling branch).
func vC20RandPrefix(r *rand.Rand, p *vC20Pool, u []string, pb int) string {
	k := p.bits[u[r.Intn(len(u))]]
	l := 0
	switch x := r.Intn(100); {
	case x < 45:
		l = pb - 3 + r.Intn(9)
	case x < 60:
		l = r.Intn(26)
	case x < 92:
		l = vC20Cpl(k, p.bits[u[r.Intn(len(u))]]) + r.Intn(2)
	}
	if l < 0 {
		l = 0
	}
	if l > 48 {
		l = 48
	}
	pre := []byte(k[:l])
	if l > 0 && r.Intn(4) == 0 {
		pre[l-1] ^= 1 // '0' <-> '1'
	}
	return string(pre)
}

// ---- set model ------------------------------------------------------------------------------

type vC20Set map[string]bool

func (s vC20Set) clone() vC20Set {
	c := make(vC20Set, len(s))
	for k := range s {
		c[k] = true
	}
	return c
}

func (s vC20Set) sorted() []string {
	out := make([]string, 0, len(s))
	for k := range s {
		out = append(out, k)
	}
	sort.Strings(out)
	return out
}

func (s vC20Set) equal(o vC20Set) bool {
	if len(s) != len(o) {
		return false
	}
	for k := range s {
		if !o[k] {
			return false
		}
	}
	return true
}

func (s vC20Set) subsetOf(o vC20Set) bool {
	for k := range s {
		if !o[k] {
			return false
		}
	}
	return true
}

func vC20Union(a, b vC20Set) vC20Set {
	c := a.clone()
	for k := range b {
		c[k] = true
	}
	return c
}

func vC20Inter(a, b vC20Set) vC20Set {
	c := vC20Set{}
	for k := range a {
		if b[k] {
			c[k] = true
		}
	}
	return c
}

func vC20SetOf(keys []string) vC20Set {
	s := vC20Set{}
	for _, k := range keys {
		s[k] = true
	}
	return s
}

func (p *vC20Pool) filter(s vC20Set, prefix string) []string {
	var out []string
	for k := range s {
		if strings.HasPrefix(p.bits[k], prefix) {
			out = append(out, k)
		}
	}
	sort.Strings(out)
	return out
}

// short renders keys as the first 20 id bits (witness text).
func (p *vC20Pool) short(keys []string) string {
	out := make([]string, len(keys))
	for i, k := range keys {
		if b, ok := p.bits[k]; ok {
			out[i] = b[:20]
		} else {
			out[i] = fmt.Sprintf("?%x", k)
		}
	}
	return "[" + strings.Join(out, " ") + "]"
}

func vC20HasDup(keys []string) bool {
	seen := map[string]bool{}
	for _, k := range keys {
		if seen[k] {
			return true
		}
		seen[k] = true
	}
	return false
}

func vC20EqStr(a, b []string) bool {
	if len(a) != len(b) {
		return false
	}
	for i := range a {
		if a[i] != b[i] {
			return false
		}
	}
	return true
}

func vC20Mhs(keys []string) []mh.Multihash {
	out := make([]mh.Multihash, len(keys))
	for i, k := range keys {
		out[i] = mh.Multihash(k)
	}
	return out
}

func vC20Strs(keys []mh.Multihash) []string {
	out := make([]string, len(keys))
	for i, k := range keys {
		out[i] = string(k)
	}
	sort.Strings(out)
	return out
}

// ---- the keystore kinds on vjds stores -------------------------------------------------------

type vC20Cfg struct {
	Kind   string // plain | shared | factory
	PB     int    // prefixBits
	BS     int    // batchSize
	BufCap int    // reset buffer capacity
}

func (c vC20Cfg) String() string {
	return fmt.Sprintf("%s/prefixBits=%d/batch=%d/bufcap=%d", c.Kind, c.PB, c.BS, c.BufCap)
}

func vC20RandCfg(r *rand.Rand, kinds []string) vC20Cfg {
	return vC20Cfg{Kind: kinds[r.Intn(len(kinds))], PB: []int{0, 8, 16}[r.Intn(3)], BS: []int{1, 2, 3, 7}[r.Intn(4)], BufCap: []int{1, 2, 64}[r.Intn(3)]}
}

var vC20AllKinds = []string{"plain", "shared", "factory"}

// vC20Disk is the durable content of all datastores of one keystore: name -> key -> value.
// plain/shared use the single store ""; factory mode uses "meta" and the slots "0", "1".
type vC20Disk map[string]map[string][]byte

type vC20Env struct {
	cfg  vC20Cfg
	j    *vjds.Journal
	main *vjds.Store   // the datastore handed to the constructor
	fac  *vjds.Factory // factory mode only
	ks   Keystore
	rks  *ResettableKeystore
}

func (c vC20Cfg) mainName() string {
	if c.Kind == "factory" {
		return "meta"
	}
	return ""
}

func (c vC20Cfg) storeNames() []string {
	if c.Kind == "factory" {
		return []string{"meta", "0", "1"}
	}
	return []string{""}
}

// vC20NewEnv creates the stores (pre-filled with disk) recording into j (a new journal when nil).
func vC20NewEnv(cfg vC20Cfg, j *vjds.Journal, disk vC20Disk) *vC20Env {
	if j == nil {
		j = vjds.NewJournal()
	}
	e := &vC20Env{cfg: cfg, j: j}
	e.main = vjds.FromMap(j, cfg.mainName(), disk[cfg.mainName()])
	if cfg.Kind == "factory" {
		init := map[string]map[string][]byte{}
		for _, n := range []string{"0", "1"} {
			if d, ok := disk[n]; ok {
				init[n] = d
			}
		}
		e.fac = vjds.NewFactory(j, init)
	}
	return e
}

var vC20Ctx = context.Background()

// open constructs the keystore and waits (one worker round trip) until start-up has finished,
// so that the journal entries of loadSize are attributed to the open.
func (e *vC20Env) open() error {
	base := KeystoreOption(WithPrefixBits(e.cfg.PB), WithBatchSize(e.cfg.BS))
	e.ks, e.rks = nil, nil
	switch e.cfg.Kind {
	case "plain":
		ks, err := NewKeystore(e.main, WithPrefixBits(e.cfg.PB), WithBatchSize(e.cfg.BS))
		if err != nil {
			return err
		}
		e.ks = ks
	case "shared":
		rks, err := NewResettableKeystore(e.main, base, WithResetBufferCapacity(e.cfg.BufCap))
		if err != nil {
			return err
		}
		e.ks, e.rks = rks, rks
	case "factory":
		rks, err := NewResettableKeystore(e.main, base, WithResetBufferCapacity(e.cfg.BufCap), WithDatastoreFactory(e.fac.Create, e.fac.Destroy))
		if err != nil {
			return err
		}
		e.ks, e.rks = rks, rks
	default:
		panic("kind " + e.cfg.Kind)
	}
	_, err := e.ks.Size(vC20Ctx)
	return err
}

// contents reads every stored key through Get(""); dup reports a key returned twice.
func vC20Contents(ks Keystore) (set vC20Set, dup bool, err error) {
	got, err := ks.Get(vC20Ctx, bitstr.Key(""))
	if err != nil {
		return nil, false, err
	}
	set = vC20Set{}
	for _, h := range got {
		if set[string(h)] {
			dup = true
		}
		set[string(h)] = true
	}
	return set, dup, nil
}

func vC20IsMetaKey(k string) bool { return k == "/active" || vC20IsSizeKey(k) }
func vC20IsSizeKey(k string) bool { return k == "/size" || strings.HasSuffix(k, "/size") }

// crash-survivor policies of the subset model (which non-durable writes survive)
type vC20Policy struct {
	Name string
	Keep func(r *rand.Rand) func(i int, e vjds.Entry) bool
}

var vC20Policies = []vC20Policy{
	{"prefix", func(*rand.Rand) func(int, vjds.Entry) bool { return nil }}, // every write of the journal prefix survives
	{"none", func(*rand.Rand) func(int, vjds.Entry) bool { return func(int, vjds.Entry) bool { return false } }},
	{"half", func(r *rand.Rand) func(int, vjds.Entry) bool {
		return func(int, vjds.Entry) bool { return r.Intn(2) == 0 }
	}},
	{"drop-meta", func(*rand.Rand) func(int, vjds.Entry) bool {
		return func(_ int, e vjds.Entry) bool { return !vC20IsMetaKey(e.Key) }
	}},
	{"drop-data", func(*rand.Rand) func(int, vjds.Entry) bool {
		return func(_ int, e vjds.Entry) bool { return vC20IsMetaKey(e.Key) }
	}},
}

// vC20CrashDisk reconstructs all stores after a crash following the first n journal entries.
// It returns the disk, a fingerprint of the dropped writes and whether the unsynced deletion of
// a size key is among them (input class of finding #12).
func vC20CrashDisk(cfg vC20Cfg, entries []vjds.Entry, n int, cover []int, keep func(int, vjds.Entry) bool) (vC20Disk, string, bool) {
	disk := vC20Disk{}
	var fp strings.Builder
	staleSize := false
	for _, name := range cfg.storeNames() {
		var initial map[string][]byte
		if name == cfg.mainName() {
			initial = map[string][]byte{} // the caller's datastore always exists
		}
		st, exists, dropped := vjds.CrashStateFn(entries, n, name, initial, cover, keep)
		if exists {
			disk[name] = st
		}
		for _, d := range dropped {
			fmt.Fprintf(&fp, "%d,", d)
			if entries[d].Op == vjds.OpDelete && vC20IsSizeKey(entries[d].Key) {
				staleSize = true
			}
		}
	}
	return disk, fp.String(), staleSize
}

// vC20Reopen opens a keystore of the same configuration on a reconstructed disk and returns its
// contents and Size. The keystore is closed again.
func vC20Reopen(cfg vC20Cfg, disk vC20Disk) (set vC20Set, dup bool, size int, err error) {
	e := vC20NewEnv(cfg, nil, disk)
	if err = e.open(); err != nil {
		return nil, false, 0, fmt.Errorf("open: %w", err)
	}
	defer e.ks.Close()
	set, dup, err = vC20Contents(e.ks)
	if err != nil {
		return nil, false, 0, fmt.Errorf("Get: %w", err)
	}
	size, err = e.ks.Size(vC20Ctx)
	return set, dup, size, err
}

// ---- operations ------------------------------------------------------------------------------

type vC20Op struct {
	Kind   string // put get has count del empty size restart reset
	Keys   []string
	Prefix string
	Limit  int
}

func (o vC20Op) render(p *vC20Pool) string {
	switch o.Kind {
	case "put":
		return "Put" + p.short(o.Keys)
	case "del":
		return "Delete" + p.short(o.Keys)
	case "reset":
		return "ResetCids" + p.short(o.Keys)
	case "get":
		return fmt.Sprintf("Get(%q)", o.Prefix)
	case "has":
		return fmt.Sprintf("ContainsPrefix(%q)", o.Prefix)
	case "count":
		return fmt.Sprintf("CountKeysUpTo(%q,%d)", o.Prefix, o.Limit)
	case "empty":
		return "Empty()"
	case "size":
		return "Size()"
	case "restart":
		return "Close();reopen"
	}
	return o.Kind
}

type vC20GenOpts struct {
	Dups    bool // calls may carry the same key twice
	Reset   bool
	Restart bool
}

func vC20PickKeys(r *rand.Rand, u []string, stored []string, n int, pStored int) []string {
	var keys []string
	for i := 0; i < n; i++ {
		if len(stored) > 0 && r.Intn(100) < pStored {
			keys = append(keys, stored[r.Intn(len(stored))])
		} else {
			keys = append(keys, u[r.Intn(len(u))])
		}
	}
	return keys
}

// vC20Uniq removes repeated keys, keeping the first occurrence.
func vC20Uniq(keys []string) []string {
	seen := map[string]bool{}
	var out []string
	for _, k := range keys {
		if !seen[k] {
			seen[k] = true
			out = append(out, k)
		}
	}
	return out
}

func vC20GenOp(r *rand.Rand, p *vC20Pool, u []string, m vC20Set, cfg vC20Cfg, o vC20GenOpts) vC20Op {
	op := vC20GenOp0(r, p, u, m, cfg, o)
	if (op.Kind == "put" || op.Kind == "del") && !o.Dups {
		op.Keys = vC20Uniq(op.Keys)
	}
	return op
}

func vC20GenOp0(r *rand.Rand, p *vC20Pool, u []string, m vC20Set, cfg vC20Cfg, o vC20GenOpts) vC20Op {
	stored := m.sorted()
	x := r.Intn(100)
	switch {
	case x < 30:
		keys := vC20PickKeys(r, u, stored, 1+r.Intn(5), 35)
		if o.Dups && r.Intn(5) == 0 {
			keys = append(keys, keys[r.Intn(len(keys))])
			r.Shuffle(len(keys), func(i, j int) { keys[i], keys[j] = keys[j], keys[i] })
		}
		return vC20Op{Kind: "put", Keys: keys}
	case x < 42:
		return vC20Op{Kind: "get", Prefix: vC20RandPrefix(r, p, u, cfg.PB)}
	case x < 52:
		return vC20Op{Kind: "has", Prefix: vC20RandPrefix(r, p, u, cfg.PB)}
	case x < 62:
		return vC20Op{Kind: "count", Prefix: vC20RandPrefix(r, p, u, cfg.PB), Limit: []int{-1, 0, 1, 2, 3, 5, 100}[r.Intn(7)]}
	case x < 74:
		keys := vC20PickKeys(r, u, stored, 1+r.Intn(3), 70)
		if o.Dups && r.Intn(5) == 0 {
			keys = append(keys, keys[r.Intn(len(keys))])
		}
		return vC20Op{Kind: "del", Keys: keys}
	case x < 77:
		return vC20Op{Kind: "empty"}
	case x < 82:
		return vC20Op{Kind: "size"}
	case x < 90:
		if o.Restart {
			return vC20Op{Kind: "restart"}
		}
	default:
		if o.Reset && cfg.Kind != "plain" {
			// the channel of a reset may deliver the same CID twice (blind puts are idempotent)
			return vC20Op{Kind: "reset", Keys: vC20PickKeys(r, u, stored, r.Intn(11), 30)}
		}
	}
	return vC20Op{Kind: "put", Keys: vC20PickKeys(r, u, stored, 1+r.Intn(4), 35)}
}

type vC20Res struct {
	keys  []string // sorted
	n     int
	found bool
	err   error
}

func vC20CidChan(keys []string) chan cid.Cid {
	ch := make(chan cid.Cid, len(keys))
	for _, k := range keys {
		ch <- cid.NewCidV1(cid.Raw, mh.Multihash(k))
	}
	close(ch)
	return ch
}

func (e *vC20Env) exec(op vC20Op) (res vC20Res) {
	switch op.Kind {
	case "put":
		got, err := e.ks.Put(vC20Ctx, vC20Mhs(op.Keys)...)
		res.keys, res.err = vC20Strs(got), err
	case "get":
		got, err := e.ks.Get(vC20Ctx, bitstr.Key(op.Prefix))
		res.keys, res.err = vC20Strs(got), err
	case "has":
		res.found, res.err = e.ks.ContainsPrefix(vC20Ctx, bitstr.Key(op.Prefix))
	case "count":
		res.n, res.err = e.ks.CountKeysUpTo(vC20Ctx, bitstr.Key(op.Prefix), op.Limit)
	case "del":
		res.err = e.ks.Delete(vC20Ctx, vC20Mhs(op.Keys)...)
	case "empty":
		res.err = e.ks.Empty(vC20Ctx)
	case "size":
		res.n, res.err = e.ks.Size(vC20Ctx)
	case "restart":
		if res.err = e.ks.Close(); res.err == nil {
			res.err = e.open()
		}
	case "reset":
		var ch <-chan cid.Cid = vC20CidChan(op.Keys)
		res.err = e.rks.ResetCids(vC20Ctx, ch)
	default:
		panic("op " + op.Kind)
	}
	return res
}

// vC20Expect computes the result the set model prescribes and the model after the operation.
func vC20Expect(p *vC20Pool, m vC20Set, op vC20Op) (want vC20Res, after vC20Set) {
	after = m
	switch op.Kind {
	case "put":
		after = m.clone()
		for _, k := range op.Keys {
			if !after[k] {
				after[k] = true
				want.keys = append(want.keys, k)
			}
		}
		sort.Strings(want.keys)
	case "get":
		want.keys = p.filter(m, op.Prefix)
	case "has":
		want.found = len(p.filter(m, op.Prefix)) > 0
	case "count":
		want.n = len(p.filter(m, op.Prefix))
		if op.Limit > 0 && want.n > op.Limit {
			want.n = op.Limit
		}
	case "del":
		after = m.clone()
		for _, k := range op.Keys {
			delete(after, k)
		}
	case "empty":
		after = vC20Set{}
	case "size":
		want.n = len(m)
	case "reset":
		after = vC20SetOf(op.Keys)
	}
	return want, after
}

var vC20ClauseOf = map[string]string{"put": "put-returns-new", "get": "get-prefix", "has": "contains-prefix", "count": "count-prefix",
	"del": "delete", "empty": "empty", "size": "size", "restart": "restart", "reset": "reset"}

// vC20Compare judges the result of one successful call against the model's.
func vC20Compare(p *vC20Pool, op vC20Op, got, want vC20Res) (bool, string) {
	if got.err != nil {
		return false, fmt.Sprintf("%s returned error %v", op.render(p), got.err)
	}
	switch op.Kind {
	case "put":
		return vC20EqStr(got.keys, want.keys), fmt.Sprintf("%s returned %s as new keys, the keys not stored before are %s", op.render(p), p.short(got.keys), p.short(want.keys))
	case "get":
		return vC20EqStr(got.keys, want.keys), fmt.Sprintf("%s returned %d keys %s, stored keys under the prefix are %d %s", op.render(p), len(got.keys), p.short(got.keys), len(want.keys), p.short(want.keys))
	case "has":
		return got.found == want.found, fmt.Sprintf("%s = %v, model %v", op.render(p), got.found, want.found)
	case "count", "size":
		return got.n == want.n, fmt.Sprintf("%s = %d, model %d", op.render(p), got.n, want.n)
	}
	return true, ""
}

// vC20State checks Size and the full contents of a live keystore against a set.
func vC20State(p *vC20Pool, ks Keystore, m vC20Set) (sizeOK, contOK bool, detail string) {
	size, err := ks.Size(vC20Ctx)
	if err != nil {
		return false, false, fmt.Sprintf("Size: %v", err)
	}
	got, dup, err := vC20Contents(ks)
	if err != nil {
		return false, false, fmt.Sprintf("Get(\"\"): %v", err)
	}
	return size == len(m) && size == len(got), got.equal(m) && !dup,
		fmt.Sprintf("Size()=%d, Get(\"\") holds %d keys %s (duplicates: %v), model holds %d %s", size, len(got), p.short(got.sorted()), dup, len(m), p.short(m.sorted()))
}

// ---- unit: model -----------------------------------------------------------------------------

// vC20Hist carries the lock-step state of one history.
type vC20Hist struct {
	c       *vh.Case
	p       *vC20Pool
	env     *vC20Env
	m       vC20Set
	dupSeen bool // some call so far carried the same key twice (input class of finding #10)
}

// judge records a clause evaluation; violations in a history that contains a call with the same
// key twice carry the signature of finding #10.
func (h *vC20Hist) judge(ok bool, clause, format string, args ...any) bool {
	h.c.Clause(clause)
	if !ok {
		sig := clause
		if h.dupSeen {
			sig = "dedup/same-key-twice"
		}
		h.c.FailSig(clause, sig, format, args...)
	}
	return ok
}

// step executes one operation on keystore and model and compares.
func (h *vC20Hist) step(op vC20Op) bool {
	if (op.Kind == "put" || op.Kind == "del") && vC20HasDup(op.Keys) {
		h.dupSeen = true
	}
	want, after := vC20Expect(h.p, h.m, op)
	got := h.env.exec(op)
	h.c.Logf("%s -> %s", op.render(h.p), vC20RenderRes(h.p, op, got))
	h.c.Obs("operations", 1)
	h.c.Obs("op_"+op.Kind, 1)
	ok, detail := vC20Compare(h.p, op, got, want)
	if !h.judge(ok, vC20ClauseOf[op.Kind], "%s", detail) {
		return false
	}
	h.m = after
	sizeOK, contOK, detail := vC20State(h.p, h.env.ks, h.m)
	okS := h.judge(sizeOK, "size", "after %s: %s", op.render(h.p), detail)
	clause := "contents"
	if op.Kind == "restart" {
		clause = "restart-contents"
	} else if op.Kind == "reset" {
		clause = "reset-contents"
	}
	okC := h.judge(contOK, clause, "after %s: %s", op.render(h.p), detail)
	return okS && okC
}

func vC20RenderRes(p *vC20Pool, op vC20Op, r vC20Res) string {
	if r.err != nil {
		return "error " + r.err.Error()
	}
	switch op.Kind {
	case "put", "get":
		return p.short(r.keys)
	case "has":
		return fmt.Sprint(r.found)
	case "count", "size":
		return fmt.Sprint(r.n)
	}
	return "ok"
}

func TestVerif_C20_model(t *testing.T) {
	vh.Run(t, vh.Spec{Prop: "C20", Unit: "model", Quick: 6000, Thorough: 200000, CostMs: 2,
		Rule:    "PRNG histories of 6-25 Put (1-6 keys, stored and new, 1 call in 5 of 40% of the histories carries a key twice) / Get / ContainsPrefix / CountKeysUpTo (prefix lengths around prefixBits, common prefixes of stored keys, flipped last bit; limits -1..100) / Delete / Empty / Size / clean restart (Close + reopen on the same journaling store) / sequential ResetCids (0-10 CIDs) on the plain keystore and the resettable keystore in shared and factory mode, prefixBits in {0,8,16}, batchSize in {1,2,3,7}, 8-40 multihashes out of a pool with ids sharing 17+ leading bits; lock-step set model (ids recomputed as sha256 of the multihash), Size and full contents compared after every step; non-trivial = a Put of an already stored key, a prefix query longer than prefixBits whose post-filter discriminates (fewer matches than under the truncated prefix) and a restart all occurred; distinct by hash of the model-state sequence",
		Clauses: []string{"put-returns-new", "get-prefix", "contains-prefix", "count-prefix", "delete", "size", "contents", "restart-contents", "reset-contents"}},
		func(c *vh.Case) {
			p := vC20GetPool()
			r := c.R
			cfg := vC20RandCfg(r, vC20AllKinds)
			u := vC20Universe(r, p)
			opts := vC20GenOpts{Dups: r.Intn(10) < 4, Reset: true, Restart: true}
			c.Set("config", cfg.String())
			c.Set("universe", len(u))
			c.Set("dup_calls_allowed", opts.Dups)
			env := vC20NewEnv(cfg, nil, nil)
			if err := env.open(); err != nil {
				c.Fail("open", "open: %v", err)
				return
			}
			h := &vC20Hist{c: c, p: p, env: env, m: vC20Set{}}
			n := 6 + r.Intn(20)
			putStored, postFilter, restarted := false, false, false
			var states []string
			for i := 0; i < n; i++ {
				op := vC20GenOp(r, p, u, h.m, cfg, opts)
				switch op.Kind {
				case "put":
					for _, k := range op.Keys {
						putStored = putStored || h.m[k]
					}
				case "get", "has", "count":
					if len(op.Prefix) > cfg.PB && len(p.filter(h.m, op.Prefix)) < len(p.filter(h.m, op.Prefix[:cfg.PB])) {
						postFilter = true
						c.Obs("discriminating_long_prefix_queries", 1)
					}
				case "restart":
					restarted = true
				}
				if !h.step(op) {
					break
				}
				states = append(states, p.short(h.m.sorted()))
			}
			if env.ks != nil {
				env.ks.Close()
			}
			c.Obs("journal_entries", env.j.Len())
			c.Set("ops", n)
			if putStored && postFilter && restarted {
				hs := sha256.Sum256([]byte(cfg.String() + strings.Join(states, ";")))
				c.Nontrivial(fmt.Sprintf("%x", hs[:8]))
			}
		})
}

// ---- unit: crash -----------------------------------------------------------------------------

// vC20Rec is one operation of a recorded history with its journal range [S,E).
type vC20Rec struct {
	Op            vC20Op
	S, E          int
	Before, After vC20Set
}

// vC20AllowedAt decides which contents a reopened keystore may hold after a crash that follows
// the first n journal entries of a sequential history: the acknowledged state, or, while an
// operation is in flight, anything between the states without and with it (a reset: exactly
// one of the two).
func vC20AllowedAt(recs []vC20Rec, n int, c vC20Set) (ok bool, inflight string, want string, p0 vC20Set) {
	if len(recs) == 0 || n <= recs[0].S {
		return len(c) == 0, "open", "empty", vC20Set{}
	}
	for _, rc := range recs {
		if rc.S < n && n <= rc.E {
			if n == rc.E {
				return c.equal(rc.After), "", "the acknowledged state", rc.After
			}
			switch rc.Op.Kind {
			case "reset":
				return c.equal(rc.Before) || c.equal(rc.After), "reset", "exactly the previous or exactly the new set", rc.Before
			case "put", "del", "empty":
				lo, hi := vC20Inter(rc.Before, rc.After), vC20Union(rc.Before, rc.After)
				return lo.subsetOf(c) && c.subsetOf(hi), rc.Op.Kind, "between the states without and with the in-flight " + rc.Op.Kind, lo
			default:
				return c.equal(rc.Before), rc.Op.Kind, "the acknowledged state", rc.Before
			}
		}
	}
	last := recs[len(recs)-1]
	return c.equal(last.After), "", "the final state", last.After
}

func TestVerif_C20_crash(t *testing.T) {
	vh.Run(t, vh.Spec{Prop: "C20", Unit: "crash", Quick: 600, Thorough: 15000, CostMs: 25,
		Rule:    "fault enumeration: PRNG histories of 5-25 Put/Delete/Empty/queries/clean restart/sequential ResetCids (no call with a repeated key) on the three keystore kinds are recorded in the vjds journal with the journal range of every operation; for EVERY write boundary (after each successful write, sync or destroy of any store) the datastores are reconstructed under the prefix model and under four survivor choices of the subset model (no unsynced write survives; PRNG half; only unsynced metadata writes — size key, active marker — are lost; only unsynced data writes are lost), a keystore of the same configuration is reopened on each distinct state and its contents (Get of the empty prefix) and Size are judged: acknowledged state, or between the states without/with the one in-flight operation (in-flight reset: exactly old or exactly new), Size = number of keys; at 3 sampled crash points of a case the reopened keystore then runs ResetCids + Put + clean restart and must hold exactly those keys; non-trivial = the history contains a restart and a mutating operation after it, and (resettable kinds) a reset; distinct by hash of (config, operation sequence)",
		Clauses: []string{"crash-contents", "crash-size", "crash-continue"}},
		func(c *vh.Case) {
			p := vC20GetPool()
			r := c.R
			cfg := vC20RandCfg(r, vC20AllKinds)
			u := vC20Universe(r, p)
			c.Set("config", cfg.String())
			env := vC20NewEnv(cfg, nil, nil)
			if err := env.open(); err != nil {
				c.Fail("open", "open: %v", err)
				return
			}
			h := &vC20Hist{c: c, p: p, env: env, m: vC20Set{}}
			n := 5 + r.Intn(21)
			var recs []vC20Rec
			var names []string
			restartIdx, mutAfterRestart, resets := -1, false, 0
			for i := 0; i < n; i++ {
				op := vC20GenOp(r, p, u, h.m, cfg, vC20GenOpts{Reset: true, Restart: true})
				rc := vC20Rec{Op: op, S: env.j.Len(), Before: h.m}
				if !h.step(op) {
					return // a live divergence is the model unit's business; the crash oracle needs a sound record
				}
				rc.E, rc.After = env.j.Len(), h.m
				recs = append(recs, rc)
				names = append(names, op.Kind)
				switch op.Kind {
				case "restart":
					restartIdx = i
				case "put", "del", "empty", "reset":
					if restartIdx >= 0 && !rc.Before.equal(rc.After) {
						mutAfterRestart = true
					}
					if op.Kind == "reset" {
						resets++
					}
				}
			}
			env.ks.Close()
			entries := env.j.Entries()
			vC20Enumerate(c, p, cfg, entries, func(n int, cont vC20Set) (bool, string, string) {
				ok, inflight, want, _ := vC20AllowedAt(recs, n, cont)
				return ok, inflight, want
			}, u, nil)
			c.Set("ops", strings.Join(names, " "))
			if mutAfterRestart && (cfg.Kind == "plain" || resets > 0) {
				hs := sha256.Sum256([]byte(cfg.String() + fmt.Sprint(recs)))
				c.Nontrivial(fmt.Sprintf("%x", hs[:8]))
			}
		})
}

// vC20Enumerate reopens a keystore at every write boundary of the journal under every survivor
// policy and judges contents (through allowed) and Size. knownSize, if not nil, classifies a
// Size violation that has a known cause other than the stale size key (returns a signature or "").
func vC20Enumerate(c *vh.Case, p *vC20Pool, cfg vC20Cfg, entries []vjds.Entry, allowed func(n int, cont vC20Set) (ok bool, inflight, want string), u []string, knownSize func(n int) string) {
	cover := vjds.CoverIndex(entries)
	bounds := vjds.Boundaries(entries)
	c.Obs("journal_entries", len(entries))
	c.Obs("crash_points", len(bounds))
	reported := map[string]bool{}
	sample := map[int]bool{}
	for i := 0; i < 3 && len(bounds) > 0; i++ {
		sample[bounds[c.R.Intn(len(bounds))]] = true
	}
	for _, n := range bounds {
		seen := map[string]bool{}
		prefixContOK, prefixSizeOK := true, true // verdicts of the prefix model at this point
		for pi, pol := range vC20Policies {
			disk, fp, staleSize := vC20CrashDisk(cfg, entries, n, cover, pol.Keep(c.R))
			if pi > 0 && (fp == "" || seen[fp]) {
				continue // same state as one already judged at this point
			}
			seen[fp] = true
			cont, dup, size, err := vC20Reopen(cfg, disk)
			c.Obs("reopened_keystores", 1)
			c.Obs("reopened_"+pol.Name, 1)
			model := "subset-model"
			if pi == 0 {
				model = "prefix-model"
			}
			where := fmt.Sprintf("crash after journal entry #%d (%s), survivor policy %s (dropped unsynced writes: %s)", n-1, entries[n-1].String(), pol.Name, vC20Dropped(entries, fp))
			if err != nil {
				if !reported["crash-reopen"] {
					reported["crash-reopen"] = true
					c.FailSig("crash-reopen", "crash/reopen-error-"+model, "%s: reopening fails: %v", where, err)
				}
				if pi == 0 {
					prefixContOK, prefixSizeOK = false, false
				}
				continue
			}
			ok, inflight, want := allowed(n, cont)
			ok = ok && !dup
			if inflight != "" {
				c.Obs("points_inflight_"+inflight, 1)
			}
			c.Clause("crash-contents")
			c.Clause("crash-size")
			if !ok {
				sig := "crash/contents-" + model
				if pi > 0 && !prefixContOK {
					sig = "crash/contents-prefix-model" // same point already fails without losing any write
				}
				if !reported[sig] {
					reported[sig] = true
					c.FailSig("crash-contents", sig, "%s: reopened keystore holds %d keys %s (duplicates %v), allowed: %s (in flight: %q)\njournal tail:\n%s", where, len(cont), p.short(cont.sorted()), dup, want, inflight, vC20Tail(entries, n, 14))
				}
			}
			sizeOK := size == len(cont)
			if !sizeOK {
				known := ""
				if knownSize != nil {
					known = knownSize(n)
				}
				sig := "crash/size-" + model
				switch {
				case pi > 0 && prefixSizeOK && staleSize:
					// finding #12: the unsynced deletion of the persisted size is lost while later writes survive
					sig = "crash/size-stale-subset-model"
				case known != "":
					sig = known
				case pi > 0 && !prefixSizeOK:
					sig = "crash/size-prefix-model" // the same point already fails without losing any write
				}
				if !reported[sig] {
					reported[sig] = true
					c.FailSig("crash-size", sig, "%s: reopened keystore reports Size()=%d but holds %d keys %s (prefix model at the same point: ok=%v)\njournal tail:\n%s", where, size, len(cont), p.short(cont.sorted()), prefixSizeOK, vC20Tail(entries, n, 14))
				}
			}
			if pi == 0 {
				prefixContOK, prefixSizeOK = ok, sizeOK
			}
			if ok && sizeOK && sample[n] && (pi == 0 || pi == 1) {
				vC20Continue(c, p, cfg, disk, u, where)
			}
		}
	}
}

func vC20Dropped(entries []vjds.Entry, fp string) string {
	if fp == "" {
		return "none"
	}
	var out []string
	for _, s := range strings.Split(strings.TrimSuffix(fp, ","), ",") {
		var i int
		fmt.Sscanf(s, "%d", &i)
		out = append(out, entries[i].String())
	}
	if len(out) > 8 {
		out = append(out[:8], fmt.Sprintf("… %d more", len(out)-8))
	}
	return strings.Join(out, "; ")
}

func vC20Tail(entries []vjds.Entry, n, k int) string {
	var sb strings.Builder
	for i := max(0, n-k); i < n; i++ {
		sb.WriteString("  " + entries[i].String() + "\n")
	}
	return sb.String()
}

// vC20Continue keeps using a keystore reopened after a crash: reset (resettable kinds), put,
// clean restart; stale leftovers of the crashed run (half-filled alternate slot, old size key)
// must not leak into the result.
func vC20Continue(c *vh.Case, p *vC20Pool, cfg vC20Cfg, disk vC20Disk, u []string, where string) {
	env := vC20NewEnv(cfg, nil, disk)
	if err := env.open(); err != nil {
		c.FailSig("crash-continue", "crash/continue-open", "%s: reopen: %v", where, err)
		return
	}
	cur, _, err := vC20Contents(env.ks)
	if err != nil {
		c.FailSig("crash-continue", "crash/continue-open", "%s: Get: %v", where, err)
		return
	}
	h := &vC20Hist{c: c, p: p, env: env, m: cur}
	var ops []vC20Op
	if cfg.Kind != "plain" {
		ops = append(ops, vC20Op{Kind: "reset", Keys: vC20PickKeys(c.R, u, nil, c.R.Intn(6), 0)})
	}
	ops = append(ops, vC20Op{Kind: "put", Keys: vC20PickKeys(c.R, u, nil, 1+c.R.Intn(3), 0)}, vC20Op{Kind: "restart"})
	for _, op := range ops {
		if vC20HasDup(op.Keys) && op.Kind == "put" {
			op.Keys = vC20SetOf(op.Keys).sorted()
		}
		want, after := vC20Expect(p, h.m, op)
		got := env.exec(op)
		ok, detail := vC20Compare(p, op, got, want)
		h.m = after
		sizeOK, contOK, st := true, true, ""
		if ok {
			sizeOK, contOK, st = vC20State(p, env.ks, h.m)
		}
		c.Clause("crash-continue")
		if !ok || !sizeOK || !contOK {
			c.FailSig("crash-continue", "crash/continue-"+op.Kind, "%s, then the reopened keystore ran %s: %s %s", where, op.render(p), detail, st)
			break
		}
	}
	c.Obs("continuations", 1)
	if env.ks != nil {
		env.ks.Close()
	}
}

// ---- unit: faults ----------------------------------------------------------------------------

type vC20FaultHook struct {
	mu     sync.Mutex
	at     int // access index to fail (-1: none)
	seen   int
	fired  *vjds.Entry
	paused bool // oracle reads are neither counted nor failed
}

func (f *vC20FaultHook) pause(on bool) {
	f.mu.Lock()
	f.paused = on
	f.mu.Unlock()
}

func (f *vC20FaultHook) hook(e *vjds.Entry) error {
	f.mu.Lock()
	defer f.mu.Unlock()
	if f.paused {
		return nil
	}
	i := f.seen
	f.seen++
	if i == f.at {
		cp := *e
		f.fired = &cp
		return vjds.ErrInjected
	}
	return nil
}

func (f *vC20FaultHook) firedEntry() *vjds.Entry {
	f.mu.Lock()
	defer f.mu.Unlock()
	return f.fired
}

// vC20AccessClass names the failed access for signatures: op + kind of key / store.
func vC20AccessClass(cfg vC20Cfg, e *vjds.Entry) string {
	what := "data"
	switch {
	case e.Key == "/active":
		what = "marker"
	case vC20IsSizeKey(e.Key):
		what = "sizekey"
	case e.Op == vjds.OpBatch || e.Op == vjds.OpCommit || e.Op == vjds.OpClose || e.Op == vjds.OpCreate || e.Op == vjds.OpDestroy:
		what = ""
	case e.Op == vjds.OpQuery || e.Op == vjds.OpSync:
		what = "prefix"
	}
	s := e.Op
	if what != "" {
		s += "-" + what
	}
	return s
}

func TestVerif_C20_faults(t *testing.T) {
	vh.Run(t, vh.Spec{Prop: "C20", Unit: "faults", Quick: 160, Thorough: 4000, CostMs: 120,
		Rule:    "fault enumeration: a PRNG history of 4-12 operations (as in unit model, incl. clean restarts and sequential resets, no repeated key inside a call) is first run fault-free to count its datastore accesses (Get/Has/Query/Put/Delete/Batch/Commit/Sync/Close and factory create/destroy, all stores); then it is re-run once per access index with exactly that access failing (vjds hook). Oracle: a call during which no fault fired behaves exactly like the model; the call hit by the fault either returns an error — then the contents read back afterwards lie between the states without and with it (reset: exactly one of them) and become the model — or returns success, then it must have had its full effect (documented fallbacks: ignored Sync errors, size recount); afterwards Size = number of keys, no duplicates, every later call agrees with the model, and a final clean restart reproduces the contents; non-trivial = the history has >= 40 accesses incl. a restart, and faults fired in at least 5 different operation kinds; distinct by hash of (config, operations)",
		Clauses: []string{"fault-call", "fault-recover-contents", "fault-recover-size", "fault-later-calls", "fault-final-restart"}},
		func(c *vh.Case) {
			p := vC20GetPool()
			r := c.R
			cfg := vC20RandCfg(r, vC20AllKinds)
			u := vC20Universe(r, p)
			c.Set("config", cfg.String())
			// baseline: generate the operations against the model and count the accesses
			var ops []vC20Op
			{
				env := vC20NewEnv(cfg, nil, nil)
				if err := env.open(); err != nil {
					c.Fail("open", "open: %v", err)
					return
				}
				h := &vC20Hist{c: c, p: p, env: env, m: vC20Set{}}
				n := 4 + r.Intn(9)
				for i := 0; i < n; i++ {
					op := vC20GenOp(r, p, u, h.m, cfg, vC20GenOpts{Reset: true, Restart: true})
					if !h.step(op) {
						return
					}
					ops = append(ops, op)
				}
				ops = append(ops, vC20Op{Kind: "restart"})
				if !h.step(ops[len(ops)-1]) {
					return
				}
				env.ks.Close()
				c.Set("accesses", env.j.Len())
			}
			var names []string
			hasRestart := false
			for _, op := range ops[:len(ops)-1] {
				names = append(names, op.Kind)
				hasRestart = hasRestart || op.Kind == "restart"
			}
			c.Set("ops", strings.Join(names, " "))
			firedKinds := map[string]bool{}
			total := 0
			for at := 0; ; at++ {
				fired, kind, done := vC20FaultRun(c, p, cfg, ops, at)
				if done && !fired {
					total = at
					break // the index lies beyond the last access of the history
				}
				if fired {
					firedKinds[kind] = true
					c.Obs("faults_injected", 1)
				}
				if c.Failed() && at > 400 {
					break
				}
			}
			c.Obs("fault_runs", total)
			if total >= 40 && hasRestart && len(firedKinds) >= 5 {
				hs := sha256.Sum256([]byte(cfg.String() + fmt.Sprint(ops)))
				c.Nontrivial(fmt.Sprintf("%x", hs[:8]))
			}
		})
}

// vC20FaultRun runs the history with the access number `at` failing. It returns whether the
// fault fired, the kind of the operation it hit, and whether the history ran to its end.
func vC20FaultRun(c *vh.Case, p *vC20Pool, cfg vC20Cfg, ops []vC20Op, at int) (fired bool, firedKind string, done bool) {
	fh := &vC20FaultHook{at: at}
	j := vjds.NewJournal()
	j.Hook = fh.hook
	env := vC20NewEnv(cfg, j, nil)
	m := vC20Set{}
	fail := func(clause, sigTail, format string, args ...any) {
		e := fh.firedEntry()
		sig := "faults/" + firedKind + "/" + vC20AccessClass(cfg, e) + "/" + sigTail
		// root causes seen on the pinned tree get one stable signature each (see the final report of the monitor's author)
		switch {
		case e.Op == vjds.OpDelete && vC20IsSizeKey(e.Key) && (firedKind == "open" || firedKind == "restart"):
			// loadSize ignores the failed deletion of the persisted size: the metadata key stays in the slot and is served as a stored key
			sig = "faults/startup-sizekey-delete-ignored"
		case firedKind == "reset" && e.Op == vjds.OpPut && e.Key == "/active":
			// the failed write of the active-slot marker is only logged: the old slot is torn down although the marker still names it
			sig = "faults/reset-marker-write-ignored"
		case firedKind == "reset" && sigTail == "success-without-effect" && e.Key != "/active" &&
			(e.Op == vjds.OpSync || e.Op == vjds.OpBatch || e.Op == vjds.OpHas || e.Op == vjds.OpCommit):
			// opCleanup aborts the swap after a failed final drain / sync, but ResetCids has already decided to return nil
			sig = "faults/reset-cleanup-failure-returns-nil"
		}
		c.FailSig(clause, sig, "config %s, access #%d failing (%s) during %s: %s\nhistory: %s", cfg, at, e.String(), firedKind, fmt.Sprintf(format, args...), vC20RenderOps(p, ops))
	}
	// open: a failing constructor is retried (the fault fires once)
	if err := env.open(); err != nil {
		if fh.firedEntry() == nil {
			c.FailSig("open", "faults/open-error", "open fails without injected fault: %v", err)
			return false, "", true
		}
		fired, firedKind = true, "open"
		c.Clause("fault-call")
		if env.ks != nil {
			env.ks.Close()
		}
		if err := env.open(); err != nil {
			fail("fault-later-calls", "reopen-error", "second open fails too: %v", err)
			return true, firedKind, true
		}
	} else if fh.firedEntry() != nil {
		fired, firedKind = true, "open"
		c.Clause("fault-call")
		// silent fallback at start-up: the state must still be exact (checked by the first resync below)
	}
	resync := fired
	defer func() {
		if env.ks != nil {
			env.ks.Close()
		}
	}()
	state := func(m vC20Set) (bool, bool, string) {
		fh.pause(true)
		defer fh.pause(false)
		return vC20State(p, env.ks, m)
	}
	contents := func() (vC20Set, bool, error) {
		fh.pause(true)
		defer fh.pause(false)
		return vC20Contents(env.ks)
	}
	for i, op := range ops {
		if resync {
			// first check after the fault: Size and contents agree with each other and with the model
			resync = false
			sizeOK, contOK, detail := state(m)
			c.Clause("fault-recover-size")
			c.Clause("fault-recover-contents")
			if !contOK {
				fail("fault-recover-contents", "contents", "%s", detail)
				return true, firedKind, true
			}
			if !sizeOK {
				fail("fault-recover-size", "size", "%s", detail)
				return true, firedKind, true
			}
		}
		want, after := vC20Expect(p, m, op)
		before := fh.firedEntry() != nil
		got := vC20FaultExec(env, op)
		hit := !before && fh.firedEntry() != nil
		last := i == len(ops)-1
		if !hit {
			ok, detail := vC20Compare(p, op, got, want)
			if ok {
				m = after
				sizeOK, contOK, st := true, true, ""
				if env.ks != nil {
					sizeOK, contOK, st = state(m)
				}
				ok, detail = sizeOK && contOK, "after "+op.render(p)+": "+st
			}
			if fired {
				clause := "fault-later-calls"
				if last {
					clause = "fault-final-restart"
				}
				c.Clause(clause)
				if !ok {
					fail(clause, clause[len("fault-"):]+"/"+op.Kind, "%d operations after the fault: %s", i, detail)
					return true, firedKind, true
				}
			} else if !ok {
				c.FailSig("fault-free-prefix", "faults/fault-free-prefix", "before any fault fired: %s", detail)
				return false, "", true
			}
			continue
		}
		// the fault fired inside this call
		fired, firedKind = true, op.Kind
		c.Clause("fault-call")
		c.Obs("fault_in_"+op.Kind, 1)
		if got.err == nil {
			c.Obs("fault_absorbed_call_succeeded", 1)
			// the call claims success: it must have had its full effect
			ok, detail := vC20Compare(p, op, got, want)
			if !ok {
				fail("fault-call", "success-wrong-result", "the call succeeded despite the fault but: %s", detail)
				return true, firedKind, true
			}
			m = after
			if env.ks == nil { // cannot happen: restart succeeded
				continue
			}
			sizeOK, contOK, st := state(m)
			c.Clause("fault-recover-size")
			c.Clause("fault-recover-contents")
			if !contOK {
				fail("fault-recover-contents", "success-without-effect", "%s returned success despite the fault, but: %s", op.render(p), st)
				return true, firedKind, true
			}
			if !sizeOK {
				fail("fault-recover-size", "size", "%s returned success despite the fault, but: %s", op.render(p), st)
				return true, firedKind, true
			}
			continue
		}
		c.Obs("fault_call_returned_error", 1)
		// the call failed: make sure a keystore is open again, then read back
		if env.ks == nil {
			if err := env.open(); err != nil {
				fail("fault-later-calls", "reopen-error", "reopening after the failed %s fails: %v", op.Kind, err)
				return true, firedKind, true
			}
		}
		cont, dup, err := contents()
		if err != nil {
			fail("fault-later-calls", "get-error", "Get after the fault: %v", err)
			return true, firedKind, true
		}
		lo, hi := vC20Inter(m, after), vC20Union(m, after)
		okC := lo.subsetOf(cont) && cont.subsetOf(hi) && !dup
		if op.Kind == "reset" {
			okC = (cont.equal(m) || cont.equal(after)) && !dup
		}
		c.Clause("fault-recover-contents")
		if !okC {
			fail("fault-recover-contents", "contents", "%s failed with %v; afterwards the keystore holds %s (duplicates %v), state before %s, state had it succeeded %s", op.render(p), got.err, p.short(cont.sorted()), dup, p.short(m.sorted()), p.short(after.sorted()))
			return true, firedKind, true
		}
		m = cont
		size, err := env.ks.Size(vC20Ctx)
		c.Clause("fault-recover-size")
		if err != nil || size != len(cont) {
			fail("fault-recover-size", "size", "%s failed with %v; afterwards Size()=%d (err %v) but %d keys are stored", op.render(p), got.err, size, err, len(cont))
			return true, firedKind, true
		}
	}
	return fired, firedKind, true
}

// vC20FaultExec is exec with a restart that leaves env.ks nil when the keystore could not be
// reopened or was closed with an error (the caller reopens).
func vC20FaultExec(env *vC20Env, op vC20Op) vC20Res {
	if op.Kind != "restart" {
		return env.exec(op)
	}
	err := env.ks.Close()
	env.ks, env.rks = nil, nil
	if err != nil {
		return vC20Res{err: fmt.Errorf("Close: %w", err)}
	}
	if err := env.open(); err != nil {
		if env.ks != nil {
			env.ks.Close()
		}
		env.ks, env.rks = nil, nil
		return vC20Res{err: fmt.Errorf("open: %w", err)}
	}
	return vC20Res{}
}

func vC20RenderOps(p *vC20Pool, ops []vC20Op) string {
	out := make([]string, len(ops))
	for i, op := range ops {
		out[i] = op.render(p)
	}
	return strings.Join(out, "; ")
}

func vC20Rand(seed int64) *rand.Rand { return rand.New(rand.NewSource(seed)) }
