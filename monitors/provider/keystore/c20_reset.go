//go:build verif

package keystore

// C20, units `reset` (concurrent puts steered into the phases of ResetCids; completion,
// cancellation, Close; crash at every write boundary) and `concurrent` (-race).
//
// Steering never uses time: phase A is controlled through the (unbuffered) CID channel, the
// later phases through gates in the vjds hook that block only datastore accesses made on the
// goroutine running ResetCids (the keystore worker never runs on it and holds no lock that the
// gated goroutine owns; the gated goroutine holds only the altDsBusy token).

import (
	"context"
	"crypto/sha256"
	"fmt"
	"runtime"
	"sort"
	"strings"
	"sync"
	"sync/atomic"
	"testing"
	"time"

	"github.com/ipfs/go-cid"
	"github.com/ipfs/go-libdht/kad/key/bitstr"
	mh "github.com/multiformats/go-multihash"

	"github.com/libp2p/go-libp2p-kad-dht/internal/verif/vh"
	"github.com/libp2p/go-libp2p-kad-dht/internal/verif/vjds"
)

func vC20Goid() int64 {
	var buf [64]byte
	n := runtime.Stack(buf[:], false)
	var id int64
	for _, ch := range buf[len("goroutine "):n] {
		if ch < '0' || ch > '9' {
			break
		}
		id = id*10 + int64(ch-'0')
	}
	return id
}

// gates: 1 = phase A's final Sync of the new slot (puts issued here are drained by phase C),
// 2 = phase B's counting query (ditto), 3 = the batch of phase C's checked drain (puts issued
// here form the tail drained by the worker right before the swap).
type vC20Gates struct {
	goid      atomic.Int64
	stage     int // touched on the reset goroutine only
	enabled   [4]bool
	reached   [4]chan struct{}
	release   [4]chan struct{}
	fail      [4]bool       // the gated access itself fails with vjds.ErrInjected (set before the gate is released)
	started   chan struct{} // closed at the first datastore access made by ResetCids itself
	startOnce sync.Once
	seen      [4]atomic.Bool
}

func vC20NewGates() *vC20Gates {
	g := &vC20Gates{started: make(chan struct{})}
	for i := range g.reached {
		g.reached[i] = make(chan struct{})
		g.release[i] = make(chan struct{})
	}
	return g
}

func (g *vC20Gates) hook(e *vjds.Entry) error {
	id := g.goid.Load()
	if id == 0 || vC20Goid() != id {
		return nil
	}
	g.startOnce.Do(func() { close(g.started) })
	gate := 0
	switch {
	case g.stage == 0 && e.Op == vjds.OpSync:
		g.stage, gate = 1, 1
	case g.stage <= 1 && e.Op == vjds.OpQuery:
		g.stage, gate = 2, 2
	case g.stage == 2 && e.Op == vjds.OpBatch:
		g.stage, gate = 3, 3
	}
	if gate > 0 {
		g.seen[gate].Store(true)
		if g.enabled[gate] {
			close(g.reached[gate])
			<-g.release[gate]
			if g.fail[gate] {
				return vjds.ErrInjected
			}
		}
	}
	return nil
}

type vC20Put struct {
	Keys  []string
	Phase string // overlap A B1 B2 tail post
	After int    // phase A: issued after this many CIDs were consumed
	Class string // overlap during post
	S, E  int    // journal length before the call / after its acknowledgement (E = -1: never acknowledged)
	err   error
	ret   []string
	done  chan struct{}
}

var vC20GateOf = map[string]int{"B1": 1, "B2": 2, "tail": 3}

type vC20Scenario struct {
	c   *vh.Case
	p   *vC20Pool
	cfg vC20Cfg
	env *vC20Env

	recs []vC20Rec // sequential preparation
	pe   int       // journal length at the end of the preparation
	old  vC20Set
	new  vC20Set

	puts         []*vC20Put
	rs, re       int // journal length before ResetCids was called / after it returned
	resetErr     error
	resetIssued  bool
	lenient      bool // cancel or Close was issued before ResetCids returned: its return value does not tell which set must be found
	overlapKeys  bool // two concurrent puts share a key (input class of finding #10 inside a checked drain)
	endMode      string
	endAt        string
	closedByCase bool

	// a second, sequential ResetCids on the same live keystore after the scenario (not after Close)
	s2, e2 int     // journal length before / after it (-1: not run or failed)
	live1  vC20Set // live contents right before it
	after2 vC20Set // its keys
}

func (sc *vC20Scenario) bufFull() bool {
	r := sc.env.rks
	r.bufMu.Lock()
	defer r.bufMu.Unlock()
	return len(r.buf) >= r.resetBufCap
}

func (sc *vC20Scenario) issue(pt *vC20Put, class string) {
	pt.Class = class
	pt.done = make(chan struct{})
	pt.S, pt.E = sc.env.j.Len(), -1
	ks := sc.env.ks
	go func() {
		defer close(pt.done)
		got, err := ks.Put(vC20Ctx, vC20Mhs(pt.Keys)...)
		pt.err, pt.ret = err, vC20Strs(got)
		if err == nil {
			pt.E = sc.env.j.Len()
		}
	}()
}

// await returns when the put was acknowledged or cannot be before the reset moves on (the
// buffer is full: the worker is, or is about to be, parked in bufferKeys).
func (sc *vC20Scenario) await(pt *vC20Put, resetDone <-chan struct{}) {
	for i := 0; ; i++ {
		select {
		case <-pt.done:
			return
		default:
		}
		if sc.bufFull() {
			sc.c.Obs("puts_left_pending_on_full_buffer", 1)
			return
		}
		if i < 200 {
			runtime.Gosched()
		} else {
			time.Sleep(20 * time.Microsecond)
		}
	}
}

// allowed is the crash / final-state oracle of a scenario for the journal prefix n.
func (sc *vC20Scenario) allowed(n int, cont vC20Set) (bool, string, string) {
	if sc.s2 >= 0 && sc.e2 >= 0 && n > sc.s2 {
		// the second reset is sequential (every put was acknowledged before): exactly its keys once it
		// has returned, exactly the contents before it or exactly its keys while it runs
		if n >= sc.e2 {
			return cont.equal(sc.after2), "after-second-reset", "exactly the keys of the second reset " + sc.p.short(sc.after2.sorted())
		}
		return cont.equal(sc.live1) || cont.equal(sc.after2), "second-reset", "exactly the contents before the second reset " + sc.p.short(sc.live1.sorted()) + " or exactly its keys " + sc.p.short(sc.after2.sorted())
	}
	if n <= sc.pe || !sc.resetIssued {
		if n > sc.pe {
			n = sc.pe
		}
		ok, infl, want, _ := vC20AllowedAt(sc.recs, n, cont)
		return ok, infl, want
	}
	oldLo, oldHi := sc.old.clone(), sc.old.clone()
	newLo, newHi := sc.new.clone(), sc.new.clone()
	for _, pt := range sc.puts {
		if pt.done == nil {
			continue // never issued
		}
		acked := pt.E >= 0 && pt.E <= n
		started := pt.S < n
		for _, k := range pt.Keys {
			if acked {
				oldLo[k] = true
				if pt.Class != "overlap" {
					newLo[k] = true
				}
			}
			if started {
				oldHi[k], newHi[k] = true, true
			}
		}
	}
	allowOld := !(sc.resetErr == nil && !sc.lenient && sc.re >= 0 && sc.re <= n)
	allowNew := n > sc.rs
	okOld := allowOld && oldLo.subsetOf(cont) && cont.subsetOf(oldHi)
	okNew := allowNew && newLo.subsetOf(cont) && cont.subsetOf(newHi)
	infl := "reset"
	if sc.re >= 0 && n >= sc.re {
		infl = "after-reset"
	}
	want := fmt.Sprintf("previous set %s + acknowledged puts (required %s, possible %s) [allowed=%v] or new set %s + puts acknowledged since the reset consumed its first CID (required %s, possible %s) [allowed=%v]",
		sc.p.short(sc.old.sorted()), sc.p.short(oldLo.sorted()), sc.p.short(oldHi.sorted()), allowOld, sc.p.short(sc.new.sorted()), sc.p.short(newLo.sorted()), sc.p.short(newHi.sorted()), allowNew)
	return okOld || okNew, infl, want
}

func (sc *vC20Scenario) knownSize(n int) string {
	if sc.overlapKeys && n > sc.rs {
		return "dedup/same-key-twice"
	}
	return ""
}

func TestVerif_C20_reset(t *testing.T) {
	vh.Run(t, vh.Spec{Prop: "C20", Unit: "reset", Quick: 1200, Thorough: 25000, CostMs: 35, WallS: 120,
		Rule:    "ResettableKeystore in shared and factory mode (prefixBits {0,8,16}, batchSize {1,2,3,7}, buffer cap {1,2,64}): sequential preparation (0-3 puts, optional clean restart, optional complete reset so that the live slot is 1), then ResetCids with 0-30 CIDs fed through an unbuffered channel and 0-6 concurrent Puts (1-3 keys) (every third case also issues an overlapping, refused ResetCids at each held gate after the gate's puts) steered into: overlap with the start, phase A after the i-th CID, the gate at phase A's final sync, the gate at phase B's count, the gate inside phase C's checked drain (tail, drained by the worker before the swap), after the reset; end = completion, cancellation or Close at one of these positions, or an injected error of the gated access itself (phase A's final sync, phase B's count, the batch of phase C's drain) after the puts of that gate; unless the case closed the keystore, a second sequential ResetCids (0-5 CIDs) follows on the same live keystore and must leave exactly its keys (live, and at every crash point: exactly the contents before it or exactly its keys). Oracle on the live keystore after the run, after a clean Close + reopen, and after a crash at EVERY write boundary of the whole journal under the prefix model and four subset-model survivor choices: contents = previous set + acknowledged puts, or new set + puts issued after the reset consumed its first CID (or reached a gate) and acknowledged (overlapping puts optional, unacknowledged puts optional), never a mixture; a reset that returned nil without cancel/Close in flight must be found replaced; Size = number of keys. Non-trivial = at least one put was acknowledged while the reset was in phase A, at a gate or in the tail; distinct by (config, end, phases, counts)",
		Clauses: []string{"reset-live-contents", "reset-live-size", "crash-contents", "crash-size", "reset-returns", "reset-second"}},
		func(c *vh.Case) {
			p := vC20GetPool()
			r := c.R
			cfg := vC20RandCfg(r, []string{"shared", "factory"})
			u := vC20Universe(r, p)
			sc := &vC20Scenario{c: c, p: p, cfg: cfg, rs: -1, re: -1, s2: -1, e2: -1}
			g := vC20NewGates()
			j := vjds.NewJournal()
			j.Hook = g.hook
			env := vC20NewEnv(cfg, j, nil)
			sc.env = env
			if err := env.open(); err != nil {
				c.Fail("open", "open: %v", err)
				return
			}
			// ---- sequential preparation
			h := &vC20Hist{c: c, p: p, env: env, m: vC20Set{}}
			var prep []vC20Op
			if r.Intn(10) < 3 {
				prep = append(prep, vC20Op{Kind: "put", Keys: vC20SetOf(vC20PickKeys(r, u, nil, 1+r.Intn(4), 0)).sorted()},
					vC20Op{Kind: "reset", Keys: vC20PickKeys(r, u, nil, r.Intn(8), 0)})
			}
			for i, n := 0, r.Intn(4); i < n; i++ {
				prep = append(prep, vC20Op{Kind: "put", Keys: vC20SetOf(vC20PickKeys(r, u, nil, 1+r.Intn(5), 0)).sorted()})
			}
			if r.Intn(10) < 4 {
				prep = append(prep, vC20Op{Kind: "restart"})
			}
			for _, op := range prep {
				rc := vC20Rec{Op: op, S: j.Len(), Before: h.m}
				if !h.step(op) {
					return
				}
				rc.E, rc.After = j.Len(), h.m
				sc.recs = append(sc.recs, rc)
			}
			if len(sc.recs) == 0 {
				sc.recs = append(sc.recs, vC20Rec{Op: vC20Op{Kind: "size"}, S: j.Len(), E: j.Len(), Before: vC20Set{}, After: vC20Set{}})
			}
			sc.pe, sc.old = j.Len(), h.m.clone()
			rks := env.rks // the restart of the preparation replaces env.rks

			// ---- the scenario
			newKeys := vC20PickKeys(r, u, nil, []int{0, 1, 2, 3, 5, 8, 13, 20, 30}[r.Intn(9)], 0)
			sc.new = vC20SetOf(newKeys)
			phases := []string{"overlap", "A", "A", "B1", "B2", "tail", "tail"}
			nput := r.Intn(7)
			sc.overlapKeys = false
			share := r.Intn(10) < 3 // concurrent puts may share keys
			used := map[string]bool{}
			for i := 0; i < nput; i++ {
				pt := &vC20Put{Phase: phases[r.Intn(len(phases))]}
				if pt.Phase == "A" {
					if len(newKeys) == 0 {
						pt.Phase = "B1"
					} else {
						pt.After = 1 + r.Intn(len(newKeys))
					}
				}
				for _, k := range vC20SetOf(vC20PickKeys(r, u, nil, 1+r.Intn(3), 0)).sorted() {
					if used[k] && !share {
						continue
					}
					if used[k] {
						sc.overlapKeys = true
					}
					used[k] = true
					pt.Keys = append(pt.Keys, k)
				}
				if len(pt.Keys) > 0 {
					sc.puts = append(sc.puts, pt)
				}
			}
			// a tail needs a non-empty buffer at phase C: make sure something is put at B1/B2
			hasTail, hasB := false, false
			for _, pt := range sc.puts {
				hasTail = hasTail || pt.Phase == "tail"
				hasB = hasB || pt.Phase == "B1" || pt.Phase == "B2"
			}
			if hasTail && !hasB {
				for _, pt := range sc.puts {
					if pt.Phase == "tail" {
						pt.Phase = "B2"
						break
					}
				}
			}
			for i, n := 0, r.Intn(3); i < n; i++ {
				sc.puts = append(sc.puts, &vC20Put{Phase: "post", Keys: vC20SetOf(vC20PickKeys(r, u, nil, 1+r.Intn(3), 0)).sorted()})
			}
			sc.endMode = []string{"complete", "complete", "complete", "cancel", "close", "fault"}[r.Intn(6)]
			if sc.endMode != "complete" {
				sc.endAt = []string{"A", "B1", "B2", "tail"}[r.Intn(4)]
				if sc.endAt == "A" && (len(newKeys) == 0 || sc.endMode == "fault") {
					sc.endAt = "B1" // faults are injected at the gated accesses only
				}
			}
			endAfter := 0
			if sc.endAt == "A" {
				endAfter = 1 + r.Intn(len(newKeys))
			}
			for _, pt := range sc.puts {
				if gi := vC20GateOf[pt.Phase]; gi > 0 {
					g.enabled[gi] = true
				}
			}
			if gi := vC20GateOf[sc.endAt]; gi > 0 {
				g.enabled[gi] = true
			}
			var desc []string
			for _, pt := range sc.puts {
				d := fmt.Sprintf("%s%s", pt.Phase, p.short(pt.Keys))
				if pt.Phase == "A" {
					d = fmt.Sprintf("A@%d%s", pt.After, p.short(pt.Keys))
				}
				desc = append(desc, d)
			}
			c.Set("config", cfg.String())
			c.Set("old", len(sc.old))
			c.Set("new_cids", len(newKeys))
			c.Set("puts", strings.Join(desc, " "))
			c.Set("end", sc.endMode+"@"+sc.endAt)
			c.Logf("previous set %s; reset to %s; puts %v; end %s@%s(%d)", p.short(sc.old.sorted()), p.short(sc.new.sorted()), desc, sc.endMode, sc.endAt, endAfter)

			ctx, cancel := context.WithCancel(context.Background())
			defer cancel()
			ch := make(chan cid.Cid)
			resetDone := make(chan struct{})
			closeDone := make(chan struct{})
			var closeErr error
			for _, pt := range sc.puts {
				if pt.Phase == "overlap" {
					sc.issue(pt, "overlap")
				}
			}
			sc.rs, sc.resetIssued = j.Len(), true
			go func() {
				defer close(resetDone)
				g.goid.Store(vC20Goid())
				err := rks.ResetCids(ctx, ch)
				g.goid.Store(0)
				sc.resetErr = err
				sc.re = j.Len()
			}()
			end := func(where string) {
				switch sc.endMode {
				case "cancel":
					sc.lenient = true
					cancel()
					c.Logf("cancel at %s", where)
				case "close":
					sc.lenient = true
					sc.closedByCase = true
					go func() {
						closeErr = rks.Close()
						close(closeDone)
					}()
					<-rks.done // the worker has exited: Close is certainly in progress
					c.Logf("Close at %s", where)
				}
			}
			ended := false
			// phase A: feed the CIDs
			fed := 0
		feed:
			for i, k := range newKeys {
				select {
				case ch <- cid.NewCidV1(cid.Raw, mh.Multihash(k)):
					fed = i + 1
				case <-resetDone:
					break feed
				}
				for _, pt := range sc.puts {
					if pt.Phase == "A" && pt.After == i+1 {
						sc.issue(pt, "during")
						sc.await(pt, resetDone)
					}
				}
				if sc.endAt == "A" && endAfter == i+1 {
					end(fmt.Sprintf("phase A after %d CIDs", i+1))
					ended = true
					if sc.endMode == "close" {
						break feed
					}
					if sc.endMode == "cancel" {
						break feed
					}
				}
			}
			if !ended || sc.endMode == "complete" {
				close(ch)
			}
			c.Obs("cids_consumed", fed)
			// gates
			for gi := 1; gi <= 3; gi++ {
				if !g.enabled[gi] {
					continue
				}
				select {
				case <-g.reached[gi]:
					c.Obs(fmt.Sprintf("gate_%d_held", gi), 1)
					for _, pt := range sc.puts {
						if vC20GateOf[pt.Phase] == gi {
							sc.issue(pt, "during")
							sc.await(pt, resetDone)
						}
					}
					if c.Idx%3 == 0 {
						// an intruder: a second ResetCids while the first one is held at the gate. It is refused
						// (one reset at a time); whatever it returns, it must not disturb the reset in progress -
						// the puts acknowledged so far are judged by the contents oracle below as in every case
						// (its context is cancelled after a few ms of pacing: with the put buffer at capacity the
						// worker is parked until the next drain and cannot take the request while the gate is held)
						ictx, icancel := context.WithCancel(vC20Ctx)
						idone := make(chan error, 1)
						go func() { idone <- rks.ResetCids(ictx, vC20CidChan(nil)) }()
						var errI error
						select {
						case errI = <-idone:
						case <-time.After(5 * time.Millisecond):
							icancel()
							errI = <-idone
						}
						icancel()
						c.Obs("overlapping_resets_issued", 1)
						if errI != nil && errI != context.Canceled {
							c.Obs("overlapping_resets_refused", 1)
						}
						c.Logf("overlapping ResetCids at gate %d returned %v", gi, errI)
					}
					if vC20GateOf[sc.endAt] == gi && !ended {
						if sc.endMode == "fault" {
							// the gated access of ResetCids (phase A's final sync / phase B's count / the batch
							// of phase C's drain) fails after the puts above were issued: the reset must not
							// replace the contents by a set that lacks them
							g.fail[gi] = true
							c.Obs("faults_injected_at_gate", 1)
							c.Logf("injected error at gate %d", gi)
						} else {
							end(fmt.Sprintf("gate %d", gi))
						}
						ended = true
					}
					close(g.release[gi])
				case <-resetDone:
				}
			}
			<-resetDone
			for gi := 1; gi <= 3; gi++ { // a gate reached late must not block (cannot happen after resetDone; defensive)
				select {
				case <-g.release[gi]:
				default:
					close(g.release[gi])
				}
			}
			// puts that could not be issued in their phase (gate never reached) and post puts
			for _, pt := range sc.puts {
				if pt.done == nil && !sc.closedByCase {
					if pt.Phase != "post" {
						c.Obs("puts_demoted_to_post", 1)
					}
					sc.issue(pt, "post")
					<-pt.done
				}
			}
			for _, pt := range sc.puts {
				if pt.done != nil {
					<-pt.done
				}
			}
			if sc.closedByCase {
				<-closeDone
				if closeErr != nil {
					c.FailSig("reset-returns", "reset/close-error", "Close during the reset returned %v", closeErr)
				}
			}
			c.Logf("ResetCids returned %v (journal %d..%d)", sc.resetErr, sc.rs, sc.re)
			acked := 0
			var phasesAcked []string
			for _, pt := range sc.puts {
				c.Logf("put %s %s class=%s journal %d..%d err=%v new=%s", pt.Phase, p.short(pt.Keys), pt.Class, pt.S, pt.E, pt.err, p.short(pt.ret))
				if pt.done == nil {
					continue
				}
				c.Obs("puts_issued_"+pt.Class, 1)
				if pt.err == nil && pt.Class == "during" {
					acked++
					phasesAcked = append(phasesAcked, pt.Phase)
					c.Obs("puts_acked_in_"+pt.Phase, 1)
				}
				if pt.err == nil {
					// sanity of the return value: new keys are among the keys of the call, each at most once
					okRet := !vC20HasDup(pt.ret) && vC20SetOf(pt.ret).subsetOf(vC20SetOf(pt.Keys))
					c.Check(okRet, "put-returns-subset", "Put%s during a reset returned %s", p.short(pt.Keys), p.short(pt.ret))
				}
			}
			c.Clause("reset-returns")
			if sc.endMode == "complete" && sc.resetErr != nil {
				c.FailSig("reset-returns", "reset/complete-returns-error", "undisturbed ResetCids returned %v", sc.resetErr)
			}
			c.Obs("reset_"+sc.endMode, 1)
			if sc.resetErr == nil {
				c.Obs("reset_returned_nil", 1)
			} else {
				c.Obs("reset_returned_error", 1)
			}
			for gi := 1; gi <= 3; gi++ {
				if g.seen[gi].Load() {
					c.Obs(fmt.Sprintf("phase_%d_reached", gi), 1)
				}
			}
			// ---- live state
			if !sc.closedByCase {
				n := j.Len()
				cont, dup, err := vC20Contents(env.ks)
				size, _ := env.ks.Size(vC20Ctx)
				liveOK := false
				if err != nil {
					c.Fail("reset-live-contents", "Get after the reset: %v", err)
				} else {
					ok, _, want := sc.allowed(n, cont)
					liveOK = ok && !dup && size == len(cont)
					c.Clause("reset-live-contents")
					if !ok || dup {
						c.FailSig("reset-live-contents", "reset/live-contents-"+sc.endMode, "after ResetCids returned %v the live keystore holds %s (duplicates %v); allowed: %s", sc.resetErr, p.short(cont.sorted()), dup, want)
					}
					c.Clause("reset-live-size")
					if size != len(cont) {
						sig := "reset/live-size"
						if s := sc.knownSize(n); s != "" {
							sig = s
						}
						c.FailSig("reset-live-size", sig, "after ResetCids returned %v: Size()=%d but %d keys are stored %s", sc.resetErr, size, len(cont), p.short(cont.sorted()))
					}
				}
				// ---- a second reset on the same live keystore: nothing of the first one (buffered puts of a
				// cancelled or failed reset, slot bookkeeping) may leak into it
				if liveOK {
					keys2 := vC20PickKeys(r, u, nil, r.Intn(6), 0)
					s2 := j.Len()
					err2 := rks.ResetCids(vC20Ctx, vC20CidChan(keys2))
					c.Clause("reset-second")
					c.Obs("second_resets", 1)
					c.Logf("second ResetCids%s returned %v (journal %d..%d)", p.short(keys2), err2, s2, j.Len())
					if err2 != nil {
						c.FailSig("reset-second", "reset/second-reset-error", "a sequential ResetCids after the first one returned %v (end %s@%s) returned %v", sc.resetErr, sc.endMode, sc.endAt, err2)
					} else {
						sc.live1, sc.after2 = cont, vC20SetOf(keys2)
						sc.s2, sc.e2 = s2, j.Len()
						sizeOK, contOK, detail := vC20State(p, env.ks, sc.after2)
						if !contOK {
							c.FailSig("reset-second", "reset/second-reset-contents", "after a sequential ResetCids%s following the first one (returned %v, end %s@%s): %s", p.short(keys2), sc.resetErr, sc.endMode, sc.endAt, detail)
						} else if !sizeOK {
							c.FailSig("reset-second", "reset/second-reset-size", "after a sequential ResetCids%s following the first one (returned %v, end %s@%s): %s", p.short(keys2), sc.resetErr, sc.endMode, sc.endAt, detail)
						}
					}
				}
				if err := env.ks.Close(); err != nil {
					c.FailSig("reset-returns", "reset/close-error", "Close after the reset returned %v", err)
				}
			}
			// ---- crash at every write boundary (the last one is the clean shutdown)
			entries := j.Entries()
			for _, e := range vjds.AfterCloseAccesses(entries) {
				if e.IsWrite() && e.Store != "" && e.Store != "meta" {
					c.Obs("writes_to_closed_or_destroyed_slot", 1)
				}
			}
			vC20Enumerate(c, p, cfg, entries, sc.allowed, u, sc.knownSize)
			if acked > 0 {
				sort.Strings(phasesAcked)
				hs := sha256.Sum256([]byte(fmt.Sprint(cfg.String(), sc.endMode, sc.endAt, phasesAcked, len(newKeys), len(sc.old), sc.resetErr == nil)))
				c.Nontrivial(fmt.Sprintf("%x", hs[:8]))
			}
		})
}

// ---- unit: concurrent (race build) -------------------------------------------------------------

func TestVerifRace_C20_concurrent(t *testing.T) {
	vh.Run(t, vh.Spec{Prop: "C20", Unit: "concurrent", Quick: 120, Thorough: 3000, CostMs: 30, WallS: 120,
		Rule:    "real-parallel under -race on the three keystore kinds: 3 writers put 10/10/6 keys in calls of 1-3 (writers 0 and 1 share half of their keys unless a reset runs), a churner puts and deletes private keys (only when no reset runs), 2 readers run Get/CountKeysUpTo/ContainsPrefix/Size; resettable kinds in 2 of 3 cases also run ResetCids (0-12 CIDs through an unbuffered channel) in the middle. Oracle: every Get result is duplicate-free, inside the universe and under the prefix; without reset every writer key is reported new by exactly one Put; final contents = writer keys + churner's last state (no reset) or new set + keys put after the reset consumed its first CID (keys put before that optional); Size = number of keys, also after clean restart; the race detector must stay silent. Non-trivial = readers saw >= 2 different non-empty Get results and (if a reset ran) puts were acknowledged both before and after it began; distinct by (config, counts)",
		Clauses: []string{"conc-get-sound", "conc-final-contents", "conc-final-size", "conc-restart"}},
		func(c *vh.Case) {
			p := vC20GetPool()
			r := c.R
			cfg := vC20RandCfg(r, vC20AllKinds)
			cfg.BufCap = []int{2, 64}[r.Intn(2)]
			c.Set("config", cfg.String())
			env := vC20NewEnv(cfg, nil, nil)
			if err := env.open(); err != nil {
				c.Fail("open", "open: %v", err)
				return
			}
			ks := env.ks
			doReset := cfg.Kind != "plain" && r.Intn(3) < 2
			c.Set("reset", doReset)
			perm := r.Perm(len(p.keys))
			take := func(n int) []string {
				out := make([]string, n)
				for i := range out {
					out[i] = p.keys[perm[0]]
					perm = perm[1:]
				}
				return out
			}
			wkeys := [][]string{take(10), take(10), take(6)}
			if !doReset {
				copy(wkeys[1][:5], wkeys[0][:5]) // shared keys: the same key put concurrently by two writers
			}
			churn := take(4)
			var newKeys []string
			if doReset {
				newKeys = take(r.Intn(13))
			}
			inUniverse := func(k string) bool { _, ok := p.bits[k]; return ok }
			var began atomic.Bool // the reset consumed its first CID (or returned)
			var mu sync.Mutex
			newCount := map[string]int{}
			required := vC20Set{} // keys whose put started after the reset began (or all, without reset)
			optional := vC20Set{}
			var ackBefore, ackAfter int
			var wg sync.WaitGroup
			half := make(chan struct{}) // writer 0 has made its first calls
			for wi := range wkeys {
				wg.Add(1)
				seed := r.Int63()
				go func(wi int, keys []string) {
					defer wg.Done()
					rr := vC20Rand(seed)
					for i := 0; i < len(keys); {
						n := min(1+rr.Intn(3), len(keys)-i)
						call := vC20SetOf(keys[i : i+n]).sorted()
						after := began.Load()
						got, err := ks.Put(vC20Ctx, vC20Mhs(call)...)
						if err != nil {
							c.Fail("conc-put-error", "Put: %v", err)
							return
						}
						mu.Lock()
						for _, k := range got {
							newCount[string(k)]++
						}
						for _, k := range call {
							if after || !doReset {
								required[k] = true
							} else {
								optional[k] = true
							}
						}
						if after {
							ackAfter++
						} else {
							ackBefore++
						}
						mu.Unlock()
						i += n
						if wi == 0 && i >= 2 {
							select {
							case <-half:
							default:
								close(half)
							}
						}
						runtime.Gosched()
					}
				}(wi, wkeys[wi])
			}
			// churner: private keys, last operation decides
			churnFinal := vC20Set{}
			wg.Add(1)
			go func(seed int64) {
				defer wg.Done()
				rr := vC20Rand(seed)
				state := vC20Set{}
				for i := 0; i < 24 && !doReset; i++ { // deletes during a reset are outside the property
					k := churn[rr.Intn(len(churn))]
					if state[k] {
						if err := ks.Delete(vC20Ctx, mh.Multihash(k)); err != nil {
							c.Fail("conc-put-error", "Delete: %v", err)
							return
						}
						delete(state, k)
					} else {
						if _, err := ks.Put(vC20Ctx, mh.Multihash(k)); err != nil {
							c.Fail("conc-put-error", "Put: %v", err)
							return
						}
						state[k] = true
					}
				}
				mu.Lock()
				for k := range state {
					churnFinal[k] = true
				}
				mu.Unlock()
			}(r.Int63())
			stop := make(chan struct{})
			var rwg sync.WaitGroup
			var distinctGets sync.Map
			for ri := 0; ri < 2; ri++ {
				rwg.Add(1)
				go func(seed int64) {
					defer rwg.Done()
					rr := vC20Rand(seed)
					for it := 0; ; it++ {
						select {
						case <-stop:
							return
						default:
						}
						pre := vC20RandPrefix(rr, p, p.keys, cfg.PB)
						switch it % 4 {
						case 0, 1:
							got, err := ks.Get(vC20Ctx, bitstr.Key(pre))
							if err != nil {
								c.Fail("conc-get-sound", "Get(%q): %v", pre, err)
								return
							}
							ss := vC20Strs(got)
							ok := !vC20HasDup(ss)
							for _, k := range ss {
								ok = ok && inUniverse(k) && strings.HasPrefix(p.bits[k], pre)
							}
							c.Check(ok, "conc-get-sound", "Get(%q) returned %s (duplicate, foreign or non-matching key)", pre, p.short(ss))
							if len(ss) > 0 {
								distinctGets.Store(strings.Join(ss, ""), true)
							}
						case 2:
							n, err := ks.CountKeysUpTo(vC20Ctx, bitstr.Key(pre), 0)
							c.Check(err == nil && n >= 0 && n <= len(p.keys), "conc-get-sound", "CountKeysUpTo(%q)=%d,%v", pre, n, err)
						case 3:
							_, err1 := ks.ContainsPrefix(vC20Ctx, bitstr.Key(pre))
							n, err2 := ks.Size(vC20Ctx)
							c.Check(err1 == nil && err2 == nil && n >= 0 && n <= len(p.keys)+1, "conc-get-sound", "ContainsPrefix/Size: %v %v %d", err1, err2, n)
						}
						c.Obs("reader_calls", 1)
						runtime.Gosched()
					}
				}(r.Int63())
			}
			var resetErr error
			if doReset {
				<-half
				ch := make(chan cid.Cid)
				done := make(chan struct{})
				go func() {
					defer close(done)
					resetErr = env.rks.ResetCids(vC20Ctx, ch)
					began.Store(true)
				}()
				for _, k := range newKeys {
					ch <- cid.NewCidV1(cid.Raw, mh.Multihash(k))
					began.Store(true)
				}
				close(ch)
				<-done
			}
			wg.Wait()
			close(stop)
			rwg.Wait()
			if c.Failed() {
				ks.Close()
				return
			}
			if doReset {
				if resetErr != nil {
					c.Fail("conc-final-contents", "ResetCids: %v", resetErr)
				}
			}
			lower := vC20Union(required, churnFinal)
			if doReset {
				lower = vC20Union(lower, vC20SetOf(newKeys))
				for _, k := range churn {
					delete(lower, k)
				}
			}
			upper := vC20Union(lower, optional)
			if doReset {
				for _, k := range churn {
					delete(upper, k)
				}
			}
			cont, dup, err := vC20Contents(ks)
			size, _ := ks.Size(vC20Ctx)
			if err != nil {
				c.Fail("conc-final-contents", "Get: %v", err)
				return
			}
			c.Check(lower.subsetOf(cont) && cont.subsetOf(upper) && !dup, "conc-final-contents", "final contents %s (duplicates %v); required %s, possible %s", p.short(cont.sorted()), dup, p.short(lower.sorted()), p.short(upper.sorted()))
			c.Check(size == len(cont), "conc-final-size", "final Size()=%d, %d keys stored", size, len(cont))
			if !doReset {
				bad := ""
				for _, wk := range wkeys {
					for _, k := range wk {
						if newCount[k] != 1 {
							bad += fmt.Sprintf(" %s:%d", p.bits[k][:16], newCount[k])
						}
					}
				}
				c.Check(bad == "", "conc-new-exactly-once", "writer keys reported as new by a number of Puts other than 1:%s", bad)
			}
			if err := ks.Close(); err != nil {
				c.Fail("conc-restart", "Close: %v", err)
				return
			}
			if err := env.open(); err != nil {
				c.Fail("conc-restart", "reopen: %v", err)
				return
			}
			cont2, dup2, _ := vC20Contents(env.ks)
			size2, _ := env.ks.Size(vC20Ctx)
			c.Check(cont2.equal(cont) && !dup2 && size2 == len(cont), "conc-restart", "after clean restart: %d keys (before %d), Size()=%d", len(cont2), len(cont), size2)
			env.ks.Close()
			c.Obs("journal_entries", env.j.Len())
			c.Obs("puts_acked_before_reset_began", ackBefore)
			c.Obs("puts_acked_after_reset_began", ackAfter)
			ng := 0
			distinctGets.Range(func(_, _ any) bool { ng++; return true })
			c.Obs("distinct_get_results", ng)
			if ng >= 2 && (!doReset || (ackBefore > 0 && ackAfter > 0)) {
				c.Nontrivial(fmt.Sprintf("%s-%v-%d-%d-%d", cfg, doReset, len(cont), ackBefore, ng))
			}
		})
}
