//go:build verif

package provider

// C14 — SweepingProvider.Close "stops the provider and releases all resources".
//
// A small simulated swarm stands behind KadClosestPeersRouter and pb.MessageSender (latencies,
// failing recipients; both honour the context at once, an aborted send lingers a few
// milliseconds). Keystore: internal, external plain or external resettable (a ResetCids may be
// running) over the journaling datastore.
//
// Unit provider (bubble): Close instants are enumerated over the boundary events (router
// calls, sends, datastore accesses, API calls) of a reference run, starting after the initial
// connectivity probe and prefix-length measurement. FA guard (DESIGN C14): Close waits on
// sync.Mutexes (approxPrefixLenRunning, the connectivity checker's) that the measurement holds
// across virtual waits; a Close overlapping it would stall the bubble, so the scenario never
// goes offline again and Close never falls into the measurement window.
//
// Unit provider_early (real time, -race build): Close 0-30 ms after construction, i.e. inside
// the probe / measurement window, with the router failing for the first milliseconds.
// Verdict = Close returned and nothing the provider started is left; the wall-clock watchdog
// (inconclusive) is the only time bound.

import (
	"context"
	"errors"
	"fmt"
	"math/rand"
	"runtime"
	"runtime/debug"
	"sort"
	"strings"
	"sync"
	"sync/atomic"
	"testing"
	"testing/synctest"
	"time"

	"github.com/ipfs/go-cid"
	kb "github.com/libp2p/go-libp2p-kbucket"
	"github.com/libp2p/go-libp2p/core/peer"
	ma "github.com/multiformats/go-multiaddr"
	mh "github.com/multiformats/go-multihash"

	"github.com/libp2p/go-libp2p-kad-dht/internal/verif/vc14"
	"github.com/libp2p/go-libp2p-kad-dht/internal/verif/vh"
	"github.com/libp2p/go-libp2p-kad-dht/internal/verif/vjds"
	pb "github.com/libp2p/go-libp2p-kad-dht/pb"
	"github.com/libp2p/go-libp2p-kad-dht/provider/keystore"
)

const (
	vC14PvCloseBound = 2 * time.Second
	vC14PvCloseHang  = 5 * time.Minute
)

// vC14PvSim is the swarm behind the router and the sender.
type vC14PvSim struct {
	ids      []peer.ID
	dead     map[peer.ID]bool
	k        int
	routerLt time.Duration
	sendLt   time.Duration
	grace    time.Duration
	failFor  time.Duration // the router fails until this much time has passed (real-time twin)
	// real-time twin only (a bubble would stall: the callers hold mutexes Close waits on): a cancelled router call
	// takes abortLinger of real time to unwind; with holdFirst the first router call - the connectivity probe the
	// checker starts on its own goroutine - does not answer before its context is cancelled
	abortLinger time.Duration
	holdFirst   bool
	probeOK  bool          // the connectivity probe (lookup of the own id) succeeds even while failFor lasts
	selfKey  string
	born     time.Time
	tick     func(kind, label string)
	inflight atomic.Int64
	nGCP     atomic.Int64
	nSend    atomic.Int64
}

func vC14PvWait(ctx context.Context, d time.Duration) error {
	if d <= 0 {
		return ctx.Err()
	}
	tm := time.NewTimer(d)
	defer tm.Stop()
	select {
	case <-tm.C:
		return nil
	case <-ctx.Done():
		return ctx.Err()
	}
}

func (s *vC14PvSim) GetClosestPeers(ctx context.Context, k string) ([]peer.ID, error) {
	s.inflight.Add(1)
	defer s.inflight.Add(-1)
	nth := s.nGCP.Add(1)
	s.tick("gcp", "")
	defer s.tick("gcpend", "")
	if s.holdFirst && nth == 1 {
		<-ctx.Done()
		time.Sleep(s.abortLinger)
		return nil, ctx.Err()
	}
	if err := vC14PvWait(ctx, s.routerLt); err != nil { // bubble: returns at once when cancelled (callers may hold a mutex Close waits on)
		if s.abortLinger > 0 {
			time.Sleep(s.abortLinger)
		}
		return nil, err
	}
	if s.failFor > 0 && time.Since(s.born) < s.failFor && !(s.probeOK && k == s.selfKey) {
		return nil, errors.New("vC14: network unreachable")
	}
	out := kb.SortClosestPeers(s.ids, kb.ConvertKey(k))
	if len(out) > s.k {
		out = out[:s.k]
	}
	return out, nil
}

func (s *vC14PvSim) SendRequest(context.Context, peer.ID, *pb.Message) (*pb.Message, error) {
	return nil, errors.New("vC14: SendRequest is not expected from the provider")
}

func (s *vC14PvSim) SendMessage(ctx context.Context, p peer.ID, m *pb.Message) error {
	s.inflight.Add(1)
	defer s.inflight.Add(-1)
	s.nSend.Add(1)
	s.tick("send", "")
	defer s.tick("sendend", "")
	if err := vC14PvWait(ctx, s.sendLt); err != nil {
		if s.grace > 0 {
			time.Sleep(s.grace) // an aborted RPC takes a moment to unwind (no lock of the provider is held here)
		}
		return err
	}
	if s.dead[p] {
		return errors.New("vC14: peer unreachable")
	}
	return nil
}

func vC14PvKey(seed int64, i int) mh.Multihash {
	h, _ := mh.Sum([]byte(fmt.Sprintf("c14pv-key-%d-%d", seed%9973, i)), mh.SHA2_256, -1)
	return h
}

func vC14PvNewSim(r *rand.Rand, n, k int, tick func(string, string)) *vC14PvSim {
	s := &vC14PvSim{k: k, dead: map[peer.ID]bool{}, tick: tick, born: time.Now()}
	for i := 0; i < n; i++ {
		h, _ := mh.Sum([]byte(fmt.Sprintf("c14pv-peer-%d", i)), mh.SHA2_256, -1)
		s.ids = append(s.ids, peer.ID(h))
		if r.Intn(5) == 0 {
			s.dead[peer.ID(h)] = true
		}
	}
	return s
}

type vC14PvScn struct {
	Seed     int64
	N        int
	Keystore string // internal | plain | resettable
	Reset    bool
	Interval time.Duration
	Workers  [4]int
	Actions  int
	Keys     int
}

func (s vC14PvScn) String() string {
	return fmt.Sprintf("N=%d keystore=%s reset=%v interval=%v workers=%v actions=%d keys=%d", s.N, s.Keystore, s.Reset, s.Interval, s.Workers, s.Actions, s.Keys)
}

type vC14PvRes struct {
	Events     []vc14.Ev
	CloseIdx   int
	CloseLabel string
	CloseTook  time.Duration
	InFlight   int
	Online     bool
}

var vC14PvWorkers = [][4]int{{1, 0, 0, 20}, {2, 1, 1, 20}, {4, 2, 1, 20}, {3, 1, 1, 5}, {8, 2, 2, 20}, {2, 0, 1, 1}}

func vC14PvNotKeystore(gs []vh.Goro) []vh.Goro {
	var out []vh.Goro
	for _, g := range gs {
		if strings.HasPrefix(g.CreatedBy, "provider/keystore.") || strings.Contains(g.CreatedBy, "provider/keystore.") {
			continue
		}
		out = append(out, g)
	}
	return out
}

func vC14PvRun(t *testing.T, c *vh.Case, sc vC14PvScn, target int) *vC14PvRes {
	var res *vC14PvRes
	c.Bubble(t, 6*time.Hour, "close-hang", func(t *testing.T) {
		res = vC14PvRunInBubble(t, c, sc, target)
	})
	return res
}

func vC14PvRunInBubble(t *testing.T, c *vh.Case, sc vC14PvScn, target int) *vC14PvRes {
	r := rand.New(rand.NewSource(sc.Seed))
	res := &vC14PvRes{}
	tag := fmt.Sprintf("[close@%d] ", target)
	base := vc14.Owned()
	c.Check(len(base) == 0, "baseline-clean", "%sinstance-owned goroutines before construction: %v", tag, vc14.Summary(base))
	var bd *vc14.Boundary
	var armed atomic.Bool
	tick := func(kind, label string) {
		if armed.Load() {
			bd.Tick(kind, label)
		}
	}
	sim := vC14PvNewSim(r, sc.N, 20, tick)
	sim.routerLt = time.Duration(5+r.Intn(400)) * time.Millisecond
	sim.sendLt = time.Duration(5+r.Intn(300)) * time.Millisecond
	sim.grace = time.Duration(1+r.Intn(25)) * time.Millisecond
	selfH, _ := mh.Sum([]byte(fmt.Sprintf("c14pv-self-%d", sc.Seed)), mh.SHA2_256, -1)
	self := peer.ID(selfH)
	j := vjds.NewJournal()
	j.Hook = func(e *vjds.Entry) error {
		tick("ds", e.Store+" "+e.Op)
		runtime.Gosched() // the provider calls its stores under its own locks: never a virtual wait here
		return nil
	}
	addrs := []ma.Multiaddr{ma.StringCast("/ip4/9.9.9.9/tcp/4001")}
	opts := []Option{
		WithPeerID(self), WithRouter(sim), WithMessageSender(sim), WithSelfAddrs(func() []ma.Multiaddr { return addrs }),
		WithReplicationFactor(3 + r.Intn(8)), WithReprovideInterval(sc.Interval), WithMaxReprovideDelay(sc.Interval / 10),
		WithMaxWorkers(sc.Workers[0]), WithDedicatedPeriodicWorkers(sc.Workers[1]), WithDedicatedBurstWorkers(sc.Workers[2]), WithMaxProvideConnsPerWorker(sc.Workers[3]),
		WithDatastore(vjds.NewNamed(j, "prov")),
	}
	var extKs keystore.Keystore
	var rks *keystore.ResettableKeystore
	var err error
	switch sc.Keystore {
	case "plain":
		extKs, err = keystore.NewKeystore(vjds.NewNamed(j, "ks"))
	case "resettable":
		rks, err = keystore.NewResettableKeystore(vjds.NewNamed(j, "ks"))
		extKs = rks
	}
	if err != nil {
		panic(err)
	}
	if extKs != nil {
		opts = append(opts, WithKeystore(extKs))
	}
	p, err := New(opts...)
	if err != nil {
		panic(fmt.Sprintf("vC14: provider.New failed: %v", err))
	}
	// wait for the probe and the prefix-length measurement (FA guard)
	for i := 0; i < 60; i++ {
		time.Sleep(500 * time.Millisecond)
		synctest.Wait()
		if p.connectivity.IsOnline() && !p.isOffline() && sim.inflight.Load() == 0 {
			res.Online = true
			break
		}
	}
	if !res.Online {
		c.Fail("harness-provider-online", "%sprovider did not come online within 30 virtual seconds (%s)", tag, sc)
	}
	bd = vc14.NewBoundary(max(target, 0), "(*SweepingProvider).run", "(*SweepingProvider).batch", "(*SweepingProvider).provideLoop")
	armed.Store(true)
	atOpen := vc14.Summary(vc14.Owned())

	var awg sync.WaitGroup
	var closing atomic.Bool
	var amu sync.Mutex
	var apiErrs, panics []string
	nLate := 0
	for i := 0; i < sc.Actions; i++ {
		off := time.Duration(r.Intn(4000)) * time.Millisecond
		if i == 0 {
			off = 0
		}
		kind := []string{"start", "start", "start-force", "once", "stop", "clear", "refresh", "addsched"}[r.Intn(8)]
		if i == 0 {
			kind = "start"
		}
		var keys []mh.Multihash
		for k := 0; k < 1+r.Intn(sc.Keys); k++ {
			keys = append(keys, vC14PvKey(sc.Seed, r.Intn(3*sc.Keys)))
		}
		awg.Add(1)
		go func() {
			defer awg.Done()
			time.Sleep(off)
			late := closing.Load()
			tick("api", kind)
			var err error
			func() {
				defer func() {
					if pv := recover(); pv != nil {
						amu.Lock()
						panics = append(panics, fmt.Sprintf("%s: %v\n%s", kind, pv, debug.Stack()))
						amu.Unlock()
					}
				}()
				switch kind {
				case "start":
					err = p.StartProviding(false, keys...)
				case "start-force":
					err = p.StartProviding(true, keys...)
				case "once":
					err = p.ProvideOnce(keys...)
				case "stop":
					err = p.StopProviding(keys...)
				case "clear":
					p.Clear()
				case "refresh":
					err = p.RefreshSchedule()
				case "addsched":
					err = p.AddToSchedule(keys...)
				}
			}()
			tick("apiret", kind)
			amu.Lock()
			if late {
				nLate++
			}
			if err != nil {
				apiErrs = append(apiErrs, fmt.Sprintf("%s late=%v: %v", kind, late, err))
			}
			amu.Unlock()
		}()
	}
	var resetErr error
	resetDone := make(chan struct{})
	if sc.Reset && rks != nil {
		startAt := time.Duration(r.Intn(1500)) * time.Millisecond
		n := 5 + r.Intn(40)
		go func() {
			defer close(resetDone)
			time.Sleep(startAt)
			ch := make(chan cid.Cid)
			rctx, rcancel := context.WithCancel(context.Background())
			defer rcancel()
			go func() {
				defer close(ch)
				for i := 0; i < n; i++ {
					time.Sleep(3 * time.Millisecond)
					select {
					case ch <- cid.NewCidV1(cid.Raw, vC14PvKey(sc.Seed, 50+i)):
					case <-rctx.Done():
						return
					}
				}
			}()
			tick("api", "reset")
			resetErr = rks.ResetCids(rctx, ch)
			tick("apiret", "reset")
		}()
	} else {
		close(resetDone)
	}
	apiDone := make(chan struct{})
	go func() { awg.Wait(); <-resetDone; close(apiDone) }()
	settled := make(chan struct{})
	runOver := make(chan struct{})
	defer close(runOver)
	go func() {
		<-apiDone
		// let the provides finish and, for short intervals, a reprovide cycle pass
		tm := time.NewTimer(min(sc.Interval, 20*time.Minute) + 2*time.Minute)
		defer tm.Stop()
		select {
		case <-tm.C:
			close(settled)
		case <-runOver: // an early Close: nobody waits for this any more
		}
	}()
	select {
	case <-bd.Fire:
	case <-settled:
		bd.FireNow()
	}
	closing.Store(true)
	evs := bd.Events()
	res.CloseIdx = len(evs)
	if n := len(evs); n > 0 {
		res.CloseLabel = evs[n-1].Kind + " " + evs[n-1].Label + " " + evs[n-1].Owner
	}
	res.InFlight = int(sim.inflight.Load())
	doClose := func(what string) (time.Duration, error) {
		t0 := bd.Since()
		type out struct {
			err error
			pv  string
		}
		ret := make(chan out, 1)
		go func() {
			var o out
			defer func() {
				if pv := recover(); pv != nil {
					o.pv = fmt.Sprintf("%v\n%s", pv, debug.Stack())
				}
				ret <- o
			}()
			o.err = p.Close()
		}()
		tm := time.NewTimer(vC14PvCloseHang)
		defer tm.Stop()
		select {
		case o := <-ret:
			if o.pv != "" {
				c.FailSig("close-panic", "panic@"+vh.TopRepoFrame([]byte(o.pv)), "%s%s panicked (%s; closed at event #%d %q): %s", tag, what, sc, res.CloseIdx, res.CloseLabel, o.pv)
			}
			return bd.Since() - t0, o.err
		case <-tm.C:
			buf := make([]byte, 1<<22)
			buf = buf[:runtime.Stack(buf, true)]
			c.FailSig("close-hang", "close-hang@"+vh.BlockedRepoFrame(buf), "%s%s did not return within %v (%s; closed at event #%d %q); goroutines:\n%s", tag, what, vC14PvCloseHang, sc, res.CloseIdx, res.CloseLabel, vh.FilterBubble(buf))
			c.ExitNow()
			return 0, nil
		}
	}
	took, cerr := doClose("Close")
	res.CloseTook = took
	c.Check(took <= vC14PvCloseBound, "close-returns-in-bound", "%sClose took %v (bound %v) (%s; closed at event #%d %q, %d router/sender calls in flight)", tag, took, vC14PvCloseBound, sc, res.CloseIdx, res.CloseLabel, res.InFlight)
	if cerr != nil {
		c.Obs("close_returned_error", 1)
		c.Logf("%sClose returned %v", tag, cerr)
	}
	synctest.Wait()
	cA := vC14PvNotKeystore(vc14.Owned())
	if extKs == nil {
		cA = vc14.Owned() // the internal keystore is the provider's: its worker must be gone too
	}
	c.Check(len(cA) == 0, "no-goroutine-after-close", "%sgoroutines of the provider alive after Close returned (%s; closed at event #%d %q, %d calls in flight; at open: %v): %v\n%s", tag, sc, res.CloseIdx, res.CloseLabel, res.InFlight, atOpen, vc14.Summary(cA), vc14.Dump(cA, 4))
	for k := 2; k <= 3; k++ {
		tk, _ := doClose(fmt.Sprintf("Close #%d", k))
		c.Check(tk <= vC14PvCloseBound, "close-again-returns", "%sClose #%d took %v", tag, k, tk)
	}
	tm := time.NewTimer(5 * time.Minute)
	select {
	case <-apiDone:
	case <-tm.C:
		buf := make([]byte, 1<<22)
		buf = buf[:runtime.Stack(buf, true)]
		c.FailSig("api-returns", "api-returns/stuck@"+vh.BlockedRepoFrame(buf), "%sAPI calls / ResetCids still running 5 virtual minutes after Close (%s; closed at event #%d %q)\n%s", tag, sc, res.CloseIdx, res.CloseLabel, vh.FilterBubble(buf))
		c.ExitNow()
	}
	tm.Stop()
	amu.Lock()
	c.Check(len(panics) == 0, "api-no-panic", "%sAPI calls panicked: %v", tag, panics)
	c.Obs("api_calls", sc.Actions)
	c.Obs("api_calls_after_close_began", nLate)
	c.Obs("api_errors", len(apiErrs))
	amu.Unlock()
	if extKs != nil { // not owned by the provider: still usable, closed by its owner
		_, kerr := extKs.Size(context.Background())
		c.Check(kerr == nil, "external-keystore-left-open", "%sthe external keystore is unusable after the provider's Close: %v", tag, kerr)
		extKs.Close()
	}
	time.Sleep(2 * time.Minute)
	synctest.Wait()
	cB := vc14.Owned()
	if !c.Check(len(cB) == 0, "no-goroutine-after-2min", "%sgoroutines 2 virtual minutes after Close (%s): %v\n%s", tag, sc, vc14.Summary(cB), vc14.Dump(cB, 4)) {
		c.ExitNow()
	}
	_ = resetErr
	res.Events = evs
	c.Obs("runs", 1)
	c.Obs("boundary_events", len(evs))
	c.Obs("journal_entries", j.Len())
	c.Obs("router_calls", int(sim.nGCP.Load()))
	c.Obs("sends", int(sim.nSend.Load()))
	c.Obs("calls_in_flight_at_close", res.InFlight)
	return res
}

func TestVerif_C14_provider(t *testing.T) {
	vh.Run(t, vh.Spec{Prop: "C14", Unit: "provider", Quick: 40, Thorough: 1500, CostMs: 200,
		Rule:    "PRNG SweepingProvider (25-120 simulated peers 20% unreachable, router 5-400 ms, sends 5-300 ms, aborted sends linger 1-25 ms; keystore internal / external plain / external resettable with a ResetCids in flight; reprovide interval 2 min - 1 h; 6 worker configurations) with 2-8 StartProviding/ProvideOnce/StopProviding/Clear/RefreshSchedule/AddToSchedule calls over 4 vs; boundary events counted after the initial measurement; reference run closes after everything (incl. a reprovide cycle for short intervals), re-runs Close at 2 events on a provider goroutine's stack and 3 PRNG indices (thorough: up to 64); non-trivial = Close with router/sender calls in flight",
		Clauses: []string{"baseline-clean", "close-returns-in-bound", "no-goroutine-after-close", "close-again-returns", "api-no-panic", "no-goroutine-after-2min"}},
		func(c *vh.Case) {
			r := c.R
			sc := vC14PvScn{Seed: r.Int63(), N: 25 + r.Intn(96), Keystore: []string{"internal", "internal", "plain", "resettable"}[r.Intn(4)],
				Interval: []time.Duration{2 * time.Minute, 10 * time.Minute, time.Hour}[r.Intn(3)], Workers: vC14PvWorkers[r.Intn(len(vC14PvWorkers))], Actions: 2 + r.Intn(7), Keys: 1 + r.Intn(12)}
			sc.Reset = sc.Keystore == "resettable" && r.Intn(2) == 0
			c.Set("scenario", sc.String())
			c.Set("seed", sc.Seed)
			ref := vC14PvRun(t, c, sc, 0)
			idxs := vc14.PickIndices(r, ref.Events, 2, 3, c.Tier == "thorough", 64)
			c.Set("close_indices", idxs)
			c.Logf("reference run: %d boundary events, Close after everything took %v", len(ref.Events), ref.CloseTook)
			var sigs []string
			for _, i := range idxs {
				if i == 0 || i > len(ref.Events) {
					continue // index 0 (inside the measurement window) belongs to the real-time twin
				}
				res := vC14PvRun(t, c, sc, i)
				c.Logf("close@%d: event #%d %q in-flight=%d took %v", i, res.CloseIdx, res.CloseLabel, res.InFlight, res.CloseTook)
				if res.InFlight > 0 {
					k, _, _ := strings.Cut(res.CloseLabel, " ")
					sigs = append(sigs, fmt.Sprintf("%s/%d", k, min(res.InFlight, 3)))
				}
			}
			if len(sigs) > 0 {
				sort.Strings(sigs)
				c.Nontrivial(fmt.Sprintf("%s/%v/%s", sc.Keystore, sc.Reset, strings.Join(sigs, ",")))
			}
		})
}

// ---- real-time twin: Close inside the probe / measurement window ---------------------------------

func TestVerifRace_C14_provider_early(t *testing.T) {
	vh.Run(t, vh.Spec{Prop: "C14", Unit: "provider_early", Quick: 24, Thorough: 600, CostMs: 60, WallS: 240,
		Rule:    "real time under -race: SweepingProvider over the simulated swarm (router 0-4 ms, failing for the first 0-20 ms in half of the cases so that the measurement retries, sends 0-3 ms), keystore internal / external plain / external resettable, StartProviding of 1-20 keys right after construction and again concurrently with Close; cancelled router calls take 2 ms (every third case: the held initial connectivity probe 25 ms) of real time to unwind; Close after a PRNG 0-30 ms; verdict = Close returned, no router/sender call is executing at the instant it returns, and no goroutine started by the provider is left (polled; the only time bound is the wall-clock watchdog = inconclusive), second Close returns; non-trivial = Close began before the provider was online or with calls in flight",
		Clauses: []string{"close-returns", "no-call-in-flight-when-close-returns", "no-goroutine-after-close", "close-again-returns"}},
		func(c *vh.Case) {
			r := c.R
			n := 25 + r.Intn(60)
			ksKind := []string{"internal", "plain", "resettable"}[r.Intn(3)]
			closeAfter := time.Duration(r.Intn(30000)) * time.Microsecond
			c.Set("peers", n)
			c.Set("keystore", ksKind)
			c.Set("close_after_us", closeAfter.Microseconds())
			var base []vh.Goro
			for i := 0; i < 2000; i++ { // real time: a goroutine that has signalled its exit may still be unwinding
				if base = vc14.Owned(); len(base) == 0 {
					break
				}
				runtime.Gosched()
				if i > 100 {
					time.Sleep(time.Millisecond)
				}
			}
			c.Check(len(base) == 0, "baseline-clean", "instance-owned goroutines before construction: %v", vc14.Summary(base))
			sim := vC14PvNewSim(r, n, 20, func(string, string) {})
			sim.routerLt = time.Duration(r.Intn(4000)) * time.Microsecond
			sim.sendLt = time.Duration(r.Intn(3000)) * time.Microsecond
			if r.Intn(2) == 0 {
				sim.failFor = time.Duration(r.Intn(20000)) * time.Microsecond
			}
			selfH, _ := mh.Sum([]byte(fmt.Sprintf("c14pv-early-%d", r.Int63())), mh.SHA2_256, -1)
			if c.Idx%3 == 0 {
				// the node is found online (probe answered) while every other lookup still fails when Close lands:
				// the prefix-length measurement is in its retry loop at the Close instant
				sim.probeOK, sim.selfKey = true, string(peer.ID(selfH))
				sim.failFor = closeAfter + 40*time.Millisecond
			}
			// cancelled router calls take real time to unwind: a Close that returns without waiting for the goroutine
			// inside such a call (connectivity probe, prefix-length measurement, provide worker) is caught with the
			// call still executing. Every third case holds the initial connectivity probe until Close cancels it.
			sim.abortLinger = 2 * time.Millisecond
			if c.Idx%3 == 1 {
				sim.holdFirst, sim.abortLinger = true, 25*time.Millisecond
			}
			c.Set("probe_held_until_close", sim.holdFirst)
			c.Set("router_fails_for_us", sim.failFor.Microseconds())
			c.Set("probe_answered_while_failing", sim.probeOK)
			addrs := []ma.Multiaddr{ma.StringCast("/ip4/9.9.9.9/tcp/4001")}
			opts := []Option{WithPeerID(peer.ID(selfH)), WithRouter(sim), WithMessageSender(sim), WithSelfAddrs(func() []ma.Multiaddr { return addrs }),
				WithReprovideInterval(time.Hour), WithDatastore(vjds.New())}
			var extKs keystore.Keystore
			switch ksKind {
			case "plain":
				extKs, _ = keystore.NewKeystore(vjds.New())
			case "resettable":
				extKs, _ = keystore.NewResettableKeystore(vjds.New())
			}
			if extKs != nil {
				opts = append(opts, WithKeystore(extKs))
			}
			p, err := New(opts...)
			if err != nil {
				panic(err)
			}
			var keys []mh.Multihash
			for i := 0; i < 1+r.Intn(20); i++ {
				keys = append(keys, vC14PvKey(int64(c.Idx), i))
			}
			p.StartProviding(false, keys...)
			var wg sync.WaitGroup
			wg.Add(1)
			go func() { // API calls racing with Close
				defer wg.Done()
				for i := 0; i < 20; i++ {
					p.StartProviding(i%2 == 0, keys...)
					p.ProvideOnce(keys[0])
					runtime.Gosched()
					time.Sleep(closeAfter / 10)
				}
			}()
			time.Sleep(closeAfter)
			online, inflight := p.connectivity.IsOnline() && !p.isOffline(), sim.inflight.Load()
			c.Set("online_at_close", online)
			c.Set("calls_in_flight_at_close", inflight)
			// Close runs on its own goroutine so that a Close that never returns can be convicted LOGICALLY: Close
			// cancels the provider's context first; an instance that keeps STARTING router calls after that
			// (counted, not timed: 200 calls begun after Close was invoked, where correct code starts at most a
			// handful - one per measurement goroutine and per worker - before it notices) has not stopped.
			gcpAtClose := sim.nGCP.Load()
			closed := make(chan error, 1)
			go func() { closed <- p.Close() }()
			var cerr error
		waitClose:
			for {
				select {
				case cerr = <-closed:
					break waitClose
				default:
				}
				if started := sim.nGCP.Load() - gcpAtClose; started >= 200 {
					buf := make([]byte, 1<<20)
					buf = buf[:runtime.Stack(buf, true)]
					c.FailSig("close-returns", "close-pending-while-instance-keeps-calling-router", "Close has not returned although the provider started %d further router calls after Close was invoked (Close %v after construction, online=%v): the instance does not stop\n%s", started, closeAfter, online, vc14.Dump(vc14.Owned(), 6))
					c.ExitNow()
				}
				time.Sleep(2 * time.Millisecond)
			}
			// Sampled at the instant Close returned. Every router / sender call is made by a goroutine the provider
			// started (connectivity checker, measurement, workers - never on the caller's goroutine of an API call),
			// and a goroutine inside such a call has certainly not exited: sound without any time bound.
			inflightAtReturn := sim.inflight.Load()
			c.Check(inflightAtReturn == 0, "no-call-in-flight-when-close-returns", "Close returned while %d router/sender calls made by goroutines of the provider were still executing (Close %v after construction, online=%v, probe held=%v): Close did not wait for them\n%s", inflightAtReturn, closeAfter, online, sim.holdFirst, vc14.Dump(vc14.Owned(), 6))
			c.Obs("router_calls_started_after_close", int(sim.nGCP.Load()-gcpAtClose))
			c.Clause("close-returns")
			if cerr != nil {
				c.Logf("Close returned %v", cerr)
			}
			p.Close() // idempotent: must return as well
			c.Clause("close-again-returns")
			wg.Wait()
			var left []vh.Goro
			for i := 0; i < 3000; i++ {
				left = vc14.Owned()
				if extKs != nil {
					left = vC14PvNotKeystore(left)
				}
				if len(left) == 0 {
					break
				}
				runtime.Gosched()
				if i > 100 {
					time.Sleep(time.Millisecond)
				}
			}
			c.Check(len(left) == 0, "no-goroutine-after-close", "goroutines of the provider still alive long after Close returned (Close %v after construction, online=%v, %d calls in flight): %v\n%s", closeAfter, online, inflight, vc14.Summary(left), vc14.Dump(left, 4))
			if extKs != nil {
				extKs.Close()
			}
			c.Obs("router_calls", int(sim.nGCP.Load()))
			c.Obs("sends", int(sim.nSend.Load()))
			if !online {
				c.Obs("closes_before_online", 1)
			}
			if !online || inflight > 0 {
				c.Nontrivial(fmt.Sprintf("%s/%v/%v", ksKind, online, inflight > 0))
			}
		})
}

// ---- real-time twin: Close around the DISCONNECTED -> OFFLINE transition ----------------------------

// TestVerifRace_C14_provider_offline: the provider is resumed over a datastore that holds a persisted average
// prefix length, so it starts DISCONNECTED; the router never answers, so after OfflineDelay the connectivity
// checker goes OFFLINE and runs the onOffline callbacks (the user's, then the provider's own). The user callbacks
// take real time. Close is aimed at that transition. Whatever runs the callbacks belongs to the provider: when
// Close returns, none may be executing and none may start afterwards.
func TestVerifRace_C14_provider_offline(t *testing.T) {
	vh.Run(t, vh.Spec{Prop: "C14", Unit: "provider_offline", Quick: 30, Thorough: 800, CostMs: 60, WallS: 240,
		Rule:    "real time under -race: SweepingProvider resumed DISCONNECTED (persisted average prefix length 3-8) over a router that fails every lookup after 0-2 ms, OfflineDelay 0-15 ms (0 in every sixth case), user connectivity callbacks that take 2-10 ms of real time, 1-10 keys handed to StartProviding; Close aimed at OfflineDelay + U(-2 ms, callback time); verdict = Close returned, no connectivity callback is executing at the instant Close returns, none starts afterwards (watched for 3 x OfflineDelay + 30 ms), no goroutine started by the provider is left; non-trivial = the onOffline callback was executing when Close was invoked; distinct by (OfflineDelay, callback time, Close offset)",
		Clauses: []string{"close-returns", "no-callback-in-flight-when-close-returns", "no-callback-after-close-returns", "no-goroutine-after-close", "close-again-returns"}},
		func(c *vh.Case) {
			r := c.R
			offlineDelay := time.Duration(1000+r.Intn(14000)) * time.Microsecond
			if c.Idx%6 == 5 {
				offlineDelay = 0
			}
			hold := time.Duration(2000+r.Intn(8000)) * time.Microsecond
			closeAfter := offlineDelay - 2*time.Millisecond + time.Duration(r.Int63n(int64(hold+2*time.Millisecond)))
			if closeAfter < 0 {
				closeAfter = 0
			}
			c.Set("offline_delay_us", offlineDelay.Microseconds())
			c.Set("callback_takes_us", hold.Microseconds())
			c.Set("close_after_us", closeAfter.Microseconds())
			var base []vh.Goro
			for i := 0; i < 2000; i++ {
				if base = vc14.Owned(); len(base) == 0 {
					break
				}
				runtime.Gosched()
				if i > 100 {
					time.Sleep(time.Millisecond)
				}
			}
			c.Check(len(base) == 0, "baseline-clean", "instance-owned goroutines before construction: %v", vc14.Summary(base))
			sim := vC14PvNewSim(r, 30, 20, func(string, string) {})
			sim.routerLt = time.Duration(r.Intn(2000)) * time.Microsecond
			sim.failFor = time.Hour
			sim.abortLinger = time.Millisecond
			selfH, _ := mh.Sum([]byte(fmt.Sprintf("c14pv-offline-%d", r.Int63())), mh.SHA2_256, -1)
			dstore := vjds.New()
			if err := dstore.Put(context.Background(), avgPrefixLenDatastoreKey, []byte{byte(3 + r.Intn(6))}); err != nil {
				panic(err)
			}
			var cbInflight, cbStarted, offInflight atomic.Int64
			cb := func(isOffline bool) func() {
				return func() {
					cbStarted.Add(1)
					cbInflight.Add(1)
					if isOffline {
						offInflight.Add(1)
					}
					time.Sleep(hold)
					if isOffline {
						offInflight.Add(-1)
					}
					cbInflight.Add(-1)
				}
			}
			addrs := []ma.Multiaddr{ma.StringCast("/ip4/9.9.9.9/tcp/4001")}
			p, err := New(WithPeerID(peer.ID(selfH)), WithRouter(sim), WithMessageSender(sim), WithSelfAddrs(func() []ma.Multiaddr { return addrs }),
				WithReprovideInterval(time.Hour), WithDatastore(dstore), WithOfflineDelay(offlineDelay),
				WithConnectivityCallbacks(cb(false), cb(false), cb(true)))
			if err != nil {
				panic(err)
			}
			var keys []mh.Multihash
			for i := 0; i < 1+r.Intn(10); i++ {
				keys = append(keys, vC14PvKey(int64(c.Idx), i))
			}
			p.StartProviding(false, keys...)
			time.Sleep(closeAfter)
			offAtClose := offInflight.Load()
			c.Set("offline_callback_executing_at_close", offAtClose > 0)
			cerr := p.Close()
			inflightAtReturn, startedAtReturn := cbInflight.Load(), cbStarted.Load()
			c.Check(inflightAtReturn == 0, "no-callback-in-flight-when-close-returns", "Close returned while %d connectivity callback(s) run by the provider were still executing (OfflineDelay %v, callback takes %v, Close %v after construction, onOffline executing when Close was invoked: %v): Close did not wait for the goroutine running them\n%s", inflightAtReturn, offlineDelay, hold, closeAfter, offAtClose > 0, vC14PvStacksWith("TestVerifRace_C14_provider_offline.func1.1"))
			c.Clause("close-returns")
			if cerr != nil {
				c.Logf("Close returned %v", cerr)
			}
			p.Close()
			c.Clause("close-again-returns")
			time.Sleep(3*offlineDelay + 30*time.Millisecond)
			c.Check(cbStarted.Load() == startedAtReturn, "no-callback-after-close-returns", "%d connectivity callback(s) were started after Close had returned (OfflineDelay %v, Close %v after construction)", cbStarted.Load()-startedAtReturn, offlineDelay, closeAfter)
			var left []vh.Goro
			for i := 0; i < 3000; i++ {
				if left = vc14.Owned(); len(left) == 0 {
					break
				}
				runtime.Gosched()
				if i > 100 {
					time.Sleep(time.Millisecond)
				}
			}
			c.Check(len(left) == 0, "no-goroutine-after-close", "goroutines of the provider still alive long after Close returned (Close %v after construction): %v\n%s", closeAfter, vc14.Summary(left), vc14.Dump(left, 4))
			c.Obs("connectivity_callbacks_run", int(cbStarted.Load()))
			c.Obs("router_calls", int(sim.nGCP.Load()))
			if offAtClose > 0 {
				c.Obs("closes_inside_offline_callback", 1)
				c.Nontrivial(fmt.Sprintf("%v/%v/%v", offlineDelay, hold, closeAfter))
			}
		})
}

// vC14PvStacksWith renders the goroutines whose stack has a frame containing sub (witness only).
func vC14PvStacksWith(sub string) string {
	buf := make([]byte, 1<<22)
	buf = buf[:runtime.Stack(buf, true)]
	var out []string
	for _, g := range vh.Goroutines(buf) {
		if strings.Contains(g, sub) {
			out = append(out, g)
		}
	}
	return strings.Join(out, "\n\n")
}
