//go:build verif

package provider

// C17/gapped — "advertised to the r peers nearest to it in the swarm ... regardless of key distribution": swarms
// with holes. The keyspace is cut into 2^d zones (d in 3..6) and every zone is empty, thin (1-8 peers) or dense
// (more peers than the router returns per lookup), so that the provider's exploration of a prefix runs into
// lookups that discover nobody new (those aimed at an empty zone next to a dense one) with productive lookups
// in between and populated zones still ahead. Keys are uniform: those falling into an empty zone have their r
// nearest peers in neighbouring zones. Oracle: the shared C17 evaluation (allocation to the r nearest healthy
// peers, provide bound), initial provide and one reprovide cycle.

import (
	"fmt"
	"testing"
	"time"

	"github.com/libp2p/go-libp2p-kad-dht/internal/verif/vh"
)

// vC17PickGapped draws a swarm zone by zone; returns the members and a description of the zone populations.
func vC17PickGapped(c *vh.Case, depth int, maxN int) ([]int32, string) {
	p := vC17Pool()
	zones := 1 << depth
	byZone := make([][]int32, zones)
	for i := range p.peers {
		z := int(p.peers[i].hi >> (64 - uint(depth)))
		byZone[z] = append(byZone[z], int32(i))
	}
	wants := make([]int, zones)
	total := 0
	for z := range wants {
		switch x := c.R.Intn(10); {
		case x < 3:
			wants[z] = 0
		case x < 6:
			wants[z] = 1 + c.R.Intn(8)
		default:
			wants[z] = vC17K + 1 + c.R.Intn(20)
		}
	}
	// half of the groups of four neighbouring zones follow the pattern "dense, empty, thin, thin or empty": an
	// exploration that starts in the dense zone probes the empty neighbour (nobody new), finds the thin zones and
	// has further zones ahead
	for g := 0; g+4 <= zones; g += 4 {
		if c.R.Intn(2) == 0 {
			pat := []int{vC17K + 1 + c.R.Intn(20), 0, 1 + c.R.Intn(8), c.R.Intn(2) * (1 + c.R.Intn(8))}
			if c.R.Intn(2) == 0 {
				pat[0], pat[1], pat[2], pat[3] = pat[3], pat[2], pat[1], pat[0]
			}
			copy(wants[g:g+4], pat)
		}
	}
	for _, w := range wants {
		total += w
	}
	// too many peers: random dense zones become thin or empty until the swarm fits
	for _, z := range c.R.Perm(zones) {
		if total <= maxN {
			break
		}
		if wants[z] > vC17K {
			nw := c.R.Intn(9)
			total -= wants[z] - nw
			wants[z] = nw
		}
	}
	var out []int32
	desc := ""
	for z, want := range wants {
		if want > len(byZone[z]) {
			want = len(byZone[z])
		}
		perm := c.R.Perm(len(byZone[z]))
		for _, i := range perm[:want] {
			out = append(out, byZone[z][i])
		}
		desc += fmt.Sprintf("%d ", want)
	}
	return out, desc
}

func TestVerif_C17_gapped(t *testing.T) {
	vh.Run(t, vh.Spec{Prop: "C17", Unit: "gapped", Quick: 600, Thorough: 8000, CostMs: 170,
		Rule:    "swarm drawn zone by zone: keyspace cut into 2^d zones (d in 3..6), each zone empty (30 %), thin (1-8 peers, 30 %) or dense (21-40 peers, more than the router's K=20 per lookup; 40 %), half of the groups of four neighbouring zones overwritten by the pattern dense-empty-thin-thin/empty (or its mirror image), at most 600 peers; r in {3,5}, healthy recipients, 20-400 uniform keys handed to StartProviding in 1-3 calls; runs for 35 virtual minutes (provide bound) and, in every second case, one full reprovide cycle more; oracle: shared C17 evaluation (every key advertised to its r nearest peers in the swarm as the router reports it, provide bound, reprovide window); non-trivial = at least one empty zone lies between populated zones and >= 1 hand-over obligation was judged; distinct by zone populations",
		Clauses: []string{"selfcheck", "provide-bound", "payload", "recipient-reported"}},
		func(c *vh.Case) {
			if !vC17SelfCheck(c) {
				return
			}
			depth := 3 + c.R.Intn(4)
			members, zdesc := vC17PickGapped(c, depth, 600)
			if len(members) == 0 {
				members, zdesc = vC17PickPeers(c, 30, false, map[int32]bool{}), "uniform-30"
			}
			p := vC17Params{N: len(members), nKeys: 20 + c.R.Intn(381), r: []int{3, 5}[c.R.Intn(2)], workers: vC17WorkerConfigs[c.R.Intn(len(vC17WorkerConfigs))]}
			cycle := c.Idx%2 == 1
			c.Set("zone_depth", depth)
			c.Set("zone_populations", zdesc)
			c.Set("reprovide_cycle_observed", cycle)
			var sim *vC17Sim
			var end time.Duration
			c.Bubble(t, 6*time.Hour, "hang", func(t *testing.T) {
				sim = vC17NewSim(c, p.r, 0, 0, 0, members)
				sim.describeCase(p)
				prov, err := New(sim.options(p.workers)...)
				if err != nil {
					c.Fail("api-error", "New: %v", err)
					return
				}
				defer func() {
					sim.rest()
					sim.closing.Store(true)
					if err := prov.Close(); err != nil {
						c.Fail("api-error", "Close: %v", err)
					}
				}()
				if !c.Check(sim.waitOnline(prov), "online-after-start", "provider not online / prefix length not measured 20 s after New with a healthy router") {
					return
				}
				keys := vC17PickKeys(c, p.nKeys, false)
				calls := 1 + c.R.Intn(3)
				at := sim.now()
				for i := 0; i < calls; i++ {
					at += time.Duration(1+c.R.Intn(60000)) * time.Millisecond
					sim.sleepUntil(at)
					sim.start(prov, c.R.Intn(2) == 0, keys[i*len(keys)/calls:(i+1)*len(keys)/calls])
				}
				if cycle {
					sim.sleepUntil(at + vC17Interval + vC17MaxDelay + 20*time.Minute)
				} else {
					sim.sleepUntil(at + vC17ProvideBound + time.Second)
				}
				sim.rest()
				end = sim.now()
				c.ObsMax("schedule_regions", sim.scheduleSize(prov))
			})
			if sim == nil || end == 0 {
				return
			}
			v := sim.evaluate(end, cycle)
			if v.provideJudged > 0 {
				c.Nontrivial(fmt.Sprintf("d%d %s", depth, zdesc))
			}
		})
}
