//go:build verif

package queue

// C19 — provide and reprovide queues never lose, duplicate or misorder work.
//
// Lock-step reference model (ordered list of prefixes + key set), compared with the real
// queues after every operation; after every step the queue is persisted into a fresh
// journaling-free map datastore and drained into a fresh queue, which must reproduce the
// model (prefixes, order, keys) and leave the datastore empty.

import (
	"context"
	"crypto/sha256"
	"encoding/binary"
	"fmt"
	"runtime"
	"sort"
	"strings"
	"sync"
	"testing"

	ds "github.com/ipfs/go-datastore"
	"github.com/ipfs/go-datastore/query"
	dssync "github.com/ipfs/go-datastore/sync"
	"github.com/ipfs/go-libdht/kad/key/bitstr"
	mh "github.com/multiformats/go-multihash"

	"github.com/libp2p/go-libp2p-kad-dht/internal/verif/vh"
)

// ---- independent key arithmetic (raw sha256 bits, no use of the keyspace package) ----------

func vBits(h mh.Multihash) string {
	s := sha256.Sum256(h)
	var sb strings.Builder
	for _, b := range s[:2] { // 16 bits are plenty: prefixes are at most 5 bits long
		fmt.Fprintf(&sb, "%08b", b)
	}
	return sb.String()
}

type vUniverse struct {
	keys []mh.Multihash
	bits map[string]string // string(mh) -> first 16 bits of its kademlia id
}

// newUniverse builds multihashes such that every prefix of `depth` bits has `per` keys.
func vNewUniverse(depth, per int) *vUniverse {
	u := &vUniverse{bits: map[string]string{}}
	count := map[string]int{}
	need := (1 << depth) * per
	for i := 0; len(u.keys) < need; i++ {
		var b [8]byte
		binary.BigEndian.PutUint64(b[:], uint64(i))
		h, _ := mh.Sum(b[:], mh.SHA2_256, -1)
		bs := vBits(h)
		if count[bs[:depth]] >= per {
			continue
		}
		count[bs[:depth]]++
		u.keys = append(u.keys, h)
		u.bits[string(h)] = bs
	}
	return u
}

func (u *vUniverse) under(prefix string) []mh.Multihash {
	var out []mh.Multihash
	for _, k := range u.keys {
		if strings.HasPrefix(u.bits[string(k)], prefix) {
			out = append(out, k)
		}
	}
	return out
}

// ---- reference model -----------------------------------------------------------------------

type vModel struct {
	u        *vUniverse
	prefixes []string        // queue order, pairwise non-overlapping
	keys     map[string]bool // string(mh)
	// conservation accounting: every enqueue of a key not held adds one obligation
	in, out int
}

func (m *vModel) push(p string) {
	first := -1
	var kept []string
	for i, q := range m.prefixes {
		if strings.HasPrefix(q, p) { // q is p or a superstring of p: absorbed
			if first < 0 {
				first = i
			}
			continue
		}
		kept = append(kept, q)
	}
	if first >= 0 {
		// position of the first absorbed entry, counted among the entries that stay
		pos := 0
		for _, q := range m.prefixes[:first] {
			if !strings.HasPrefix(q, p) {
				pos++
			}
		}
		kept = append(kept[:pos], append([]string{p}, kept[pos:]...)...)
		m.prefixes = kept
		return
	}
	for _, q := range m.prefixes {
		if strings.HasPrefix(p, q) { // covered by a shorter (or equal) prefix already queued
			return
		}
	}
	m.prefixes = append(m.prefixes, p)
}

func (m *vModel) enqueue(p string, keys []mh.Multihash) {
	if len(keys) == 0 {
		return
	}
	m.push(p)
	for _, k := range keys {
		if !m.keys[string(k)] {
			m.keys[string(k)] = true
			m.in++
		}
	}
}

func (m *vModel) takeUnder(p string) []string {
	var out []string
	for k := range m.keys {
		if strings.HasPrefix(m.u.bits[k], p) {
			out = append(out, k)
		}
	}
	for _, k := range out {
		delete(m.keys, k)
	}
	m.out += len(out)
	sort.Strings(out)
	return out
}

func (m *vModel) hasUnder(p string) bool {
	for k := range m.keys {
		if strings.HasPrefix(m.u.bits[k], p) {
			return true
		}
	}
	return false
}

func (m *vModel) dequeue() (string, []string, bool) {
	if len(m.prefixes) == 0 {
		return "", nil, false
	}
	p := m.prefixes[0]
	m.prefixes = m.prefixes[1:]
	return p, m.takeUnder(p), true
}

func (m *vModel) removePrefix(p string) {
	var kept []string
	for _, q := range m.prefixes {
		if q != p {
			kept = append(kept, q)
		}
	}
	m.prefixes = kept
}

func (m *vModel) dequeueMatching(p string) []string {
	if !m.hasUnder(p) {
		return nil
	}
	keys := m.takeUnder(p)
	removed := false
	var kept []string
	for _, q := range m.prefixes {
		if strings.HasPrefix(q, p) {
			removed = true
			continue
		}
		kept = append(kept, q)
	}
	m.prefixes = kept
	if !removed {
		for _, q := range m.prefixes {
			if strings.HasPrefix(p, q) && !m.hasUnder(q) {
				m.removePrefix(q)
				break
			}
		}
	}
	return keys
}

func (m *vModel) remove(keys []mh.Multihash) {
	for _, k := range keys {
		if m.keys[string(k)] {
			delete(m.keys, string(k))
			m.out++
		}
	}
	var kept []string
	for _, q := range m.prefixes {
		if m.hasUnder(q) {
			kept = append(kept, q)
		}
	}
	m.prefixes = kept
}

func (m *vModel) clear() int {
	n := len(m.keys)
	m.out += n
	m.keys = map[string]bool{}
	m.prefixes = nil
	return n
}

func (m *vModel) clone() *vModel {
	c := &vModel{u: m.u, prefixes: append([]string(nil), m.prefixes...), keys: map[string]bool{}, in: m.in, out: m.out}
	for k := range m.keys {
		c.keys[k] = true
	}
	return c
}

func (m *vModel) state() string {
	ks := make([]string, 0, len(m.keys))
	for k := range m.keys {
		ks = append(ks, m.u.bits[k][:6])
	}
	sort.Strings(ks)
	return strings.Join(m.prefixes, ",") + "|" + strings.Join(ks, ",")
}

func vKeyStrings(keys []mh.Multihash) []string {
	out := make([]string, len(keys))
	for i, k := range keys {
		out[i] = string(k)
	}
	sort.Strings(out)
	return out
}

func vEq(a, b []string) bool {
	if len(a) != len(b) {
		return false
	}
	for i := range a {
		if a[i] != b[i] {
			return false
		}
	}
	return true
}

func vHasDup(a []string) bool {
	for i := 1; i < len(a); i++ {
		if a[i] == a[i-1] {
			return true
		}
	}
	return false
}

// ---- operations ----------------------------------------------------------------------------

type vOp struct {
	Kind   string // enq deq deqm rem clear
	Prefix string
	Keys   []mh.Multihash
}

func (o vOp) String() string {
	switch o.Kind {
	case "enq":
		return fmt.Sprintf("Enqueue(%q,%d keys)", o.Prefix, len(o.Keys))
	case "deqm":
		return fmt.Sprintf("DequeueMatching(%q)", o.Prefix)
	case "rem":
		return fmt.Sprintf("Remove(%d keys)", len(o.Keys))
	}
	return o.Kind
}

// applyAndCompare applies op to both and compares results; then compares the scalar observers.
func vApply(c *vh.Case, q *ProvideQueue, m *vModel, op vOp) {
	switch op.Kind {
	case "enq":
		q.Enqueue(bitstr.Key(op.Prefix), op.Keys...)
		m.enqueue(op.Prefix, op.Keys)
	case "deq":
		p, keys, ok := q.Dequeue()
		mp, mkeys, mok := m.dequeue()
		got := vKeyStrings(keys)
		c.Check(ok == mok && string(p) == mp, "dequeue-oldest", "Dequeue returned (%q,%v), model (%q,%v); model queue was %v", p, ok, mp, mok, append([]string{mp}, m.prefixes...))
		c.Check(vEq(got, mkeys) && !vHasDup(got), "dequeue-keys", "Dequeue(%q) returned %d keys, model %d (all and only the queued keys under the prefix)", p, len(got), len(mkeys))
	case "deqm":
		keys := q.DequeueMatching(bitstr.Key(op.Prefix))
		mkeys := m.dequeueMatching(op.Prefix)
		got := vKeyStrings(keys)
		c.Check(vEq(got, mkeys) && !vHasDup(got), "dequeue-matching", "DequeueMatching(%q) returned %d keys, model %d", op.Prefix, len(got), len(mkeys))
	case "rem":
		q.Remove(op.Keys...)
		m.remove(op.Keys)
	case "clear":
		n := q.Clear()
		mn := m.clear()
		c.Check(n == mn, "clear", "Clear returned %d, model %d", n, mn)
	}
	c.Check(q.Size() == len(m.keys), "size", "after %v: Size()=%d, model holds %d keys", op, q.Size(), len(m.keys))
	c.Check(q.NumRegions() == len(m.prefixes), "regions", "after %v: NumRegions()=%d, model %d %v", op, q.NumRegions(), len(m.prefixes), m.prefixes)
	c.Check(q.IsEmpty() == (len(m.keys) == 0), "isempty", "after %v: IsEmpty()=%v, model holds %d keys", op, q.IsEmpty(), len(m.keys))
	// model invariants (guard the model itself): non-overlap, every key under exactly one prefix, conservation
	for i, a := range m.prefixes {
		for j, b := range m.prefixes {
			if i != j && strings.HasPrefix(a, b) {
				panic(fmt.Sprintf("model bug: overlapping prefixes %v", m.prefixes))
			}
		}
	}
	if m.in != m.out+len(m.keys) {
		panic("model bug: conservation")
	}
}

// vDrainCompare empties q with Dequeue and checks the sequence against the model's.
func vDrainCompare(c *vh.Case, q *ProvideQueue, m *vModel, clause, what string) {
	for step := 0; ; step++ {
		p, keys, ok := q.Dequeue()
		mp, mkeys, mok := m.dequeue()
		got := vKeyStrings(keys)
		if ok != mok || string(p) != mp {
			c.Check(false, clause, "%s: entry %d is (%q,%v), model (%q,%v)", what, step, p, ok, mp, mok)
			return
		}
		if !ok {
			break
		}
		if !c.Check(vEq(got, mkeys) && !vHasDup(got), clause, "%s: prefix %q carries %d keys, model %d", what, p, len(got), len(mkeys)) {
			return
		}
	}
	c.Clause(clause)
}

func vDsCount(d ds.Datastore) int {
	res, err := d.Query(context.Background(), query.Query{KeysOnly: true})
	if err != nil {
		return -1
	}
	all, _ := res.Rest()
	return len(all)
}

// vPersistCheck persists q, drains into a fresh queue and compares it with a copy of the model.
func vPersistCheck(c *vh.Case, q *ProvideQueue, m *vModel, batch int, store ds.Batching) {
	ctx := context.Background()
	if store == nil {
		store = dssync.MutexWrap(ds.NewMapDatastore())
	}
	if err := q.Persist(ctx, store, batch); err != nil {
		c.Fail("persist-error", "Persist: %v", err)
		return
	}
	fresh := NewProvideQueue()
	if err := fresh.DrainDatastore(ctx, store); err != nil {
		c.Fail("persist-error", "DrainDatastore: %v", err)
		return
	}
	sig := "nonempty"
	for _, p := range m.prefixes {
		if p == "" {
			sig = "empty-prefix"
		}
	}
	mm := m.clone()
	nv := 0
	func() {
		// route persistence violations to a signature naming the input class
		p, n := fresh.NumRegions(), fresh.Size()
		if p != len(mm.prefixes) || n != len(mm.keys) {
			c.ClauseN("persist-restore", 1)
			c.FailSig("persist-restore", "persist-restore/"+sig, "after Persist(batch=%d)+DrainDatastore: %d prefixes / %d keys restored, queue held %d / %d (prefixes %v)", batch, p, n, len(mm.prefixes), len(mm.keys), mm.prefixes)
			nv++
		}
	}()
	if nv == 0 {
		vDrainCompare(c, fresh, mm, "persist-restore", fmt.Sprintf("after Persist(batch=%d)+DrainDatastore", batch))
	}
	c.Check(vDsCount(store) == 0, "drain-empties-datastore", "datastore still holds %d entries after DrainDatastore", vDsCount(store))
}

var vPrefixPool = []string{"", "0", "1", "00", "01", "10", "11", "000", "001", "010", "101", "110", "111", "0000", "0101", "1011", "1110", "00000", "11111"}

func vRandOp(c *vh.Case, u *vUniverse, m *vModel) vOp {
	r := c.R
	x := r.Intn(100)
	switch {
	case x < 45:
		p := vPrefixPool[r.Intn(len(vPrefixPool))]
		under := u.under(p)
		n := 1 + r.Intn(4)
		if r.Intn(8) == 0 {
			n = 0
		}
		var keys []mh.Multihash
		for i := 0; i < n && len(under) > 0; i++ {
			keys = append(keys, under[r.Intn(len(under))])
		}
		return vOp{Kind: "enq", Prefix: p, Keys: keys}
	case x < 62:
		return vOp{Kind: "deq"}
	case x < 80:
		return vOp{Kind: "deqm", Prefix: vPrefixPool[r.Intn(len(vPrefixPool))]}
	case x < 96:
		n := 1 + r.Intn(3)
		var keys []mh.Multihash
		held := make([]string, 0, len(m.keys))
		for k := range m.keys {
			held = append(held, k)
		}
		sort.Strings(held)
		for i := 0; i < n; i++ {
			if len(held) > 0 && r.Intn(4) != 0 {
				keys = append(keys, mh.Multihash(held[r.Intn(len(held))]))
			} else {
				keys = append(keys, u.keys[r.Intn(len(u.keys))])
			}
		}
		return vOp{Kind: "rem", Keys: keys}
	default:
		return vOp{Kind: "clear"}
	}
}

var (
	vUniOnce sync.Once
	vUni     *vUniverse
)

func vUniv() *vUniverse {
	vUniOnce.Do(func() { vUni = vNewUniverse(5, 2) }) // 64 keys, two under every 5-bit prefix
	return vUni
}

var (
	vWideOnce sync.Once
	vWide     *vUniverse
)

// vWideUniv: one multihash under every 9-bit prefix (512 keys), for queues with hundreds of regions.
func vWideUniv() *vUniverse {
	vWideOnce.Do(func() { vWide = vNewUniverse(9, 1) })
	return vWide
}

// vWidePersist persists and restores a queue holding n >= 17 regions (n distinct 9-bit prefixes
// enqueued in PRNG order, one key each; mostly 17-48, sometimes 257-316): the persisted
// position must keep the queue order also when it needs more than one / two hex (or decimal)
// digits. The prefixes are pairwise non-overlapping, so the model is the enqueue order itself.
func vWidePersist(c *vh.Case) {
	u := vWideUniv()
	n := 17 + c.R.Intn(32)
	if c.R.Intn(6) == 0 {
		n = 257 + c.R.Intn(60)
	}
	q, m := NewProvideQueue(), &vModel{u: u, keys: map[string]bool{}}
	for _, i := range c.R.Perm(len(u.keys))[:n] {
		k := u.keys[i]
		p := u.bits[string(k)][:9]
		q.Enqueue(bitstr.Key(p), k)
		m.enqueue(p, []mh.Multihash{k})
	}
	batch := []int{1, 2, 3, 7, 16, 100, 1000}[c.R.Intn(7)]
	c.Logf("wide persist: %d regions (9-bit prefixes, one key each), Persist batch %d", n, batch)
	c.Check(q.NumRegions() == n && q.Size() == n, "regions", "wide queue: %d distinct 9-bit prefixes enqueued with one key each, NumRegions()=%d Size()=%d", n, q.NumRegions(), q.Size())
	vPersistCheck(c, q, m, batch, nil)
	c.Obs("wide_persist_restart_points", 1)
	c.ObsMax("wide_persist_max_regions", n)
}

// TestVerif_C19_history: PRNG histories of up to 25 operations with a persist/restart after every step.
func TestVerif_C19_history(t *testing.T) {
	vh.Run(t, vh.Spec{Prop: "C19", Unit: "history", Quick: 2500, Thorough: 200000, CostMs: 2,
		Rule: "PRNG histories of 4-25 enqueue/dequeue/dequeue-matching/remove/clear operations over prefixes of length 0-5 (incl. the empty prefix) and 64 multihashes; lock-step list model; Persist+DrainDatastore into a fresh queue after every step; every second case also persists into one datastore again and again without draining it (stale entries of the earlier Persist, any count versus any batch size) and drains/compares it every third time; one case in 4 also persists/restores a queue of 17-48 (1 in 6: 257-316) distinct 9-bit prefixes enqueued in PRNG order; non-trivial = some enqueue absorbed or was covered by another prefix and at least one persist check ran on a queue with >= 2 prefixes; distinct by the sequence of model states",
		Clauses: []string{"dequeue-oldest", "dequeue-keys", "dequeue-matching", "size", "regions", "persist-restore", "drain-empties-datastore", "drain-additive"}},
		func(c *vh.Case) {
			u := vUniv()
			q, m := NewProvideQueue(), &vModel{u: u, keys: map[string]bool{}}
			n := 4 + c.R.Intn(22)
			batches := []int{1, 2, 3, 7, 100}
			var states []string
			var kept ds.Batching
			overlap, multi := false, false
			for i := 0; i < n; i++ {
				op := vRandOp(c, u, m)
				before := len(m.prefixes)
				c.Logf("%v", op)
				vApply(c, q, m, op)
				if op.Kind == "enq" && len(op.Keys) > 0 && len(m.prefixes) <= before {
					overlap = true
				}
				c.Obs("operations", 1)
				states = append(states, m.state())
				if c.Failed() {
					break
				}
				vPersistCheck(c, q, m, batches[c.R.Intn(len(batches))], nil)
				c.Obs("persist_restart_points", 1)
				// every second case also keeps one datastore that is persisted into again and again without being drained
				// (a run that does not resume): each Persist has to replace whatever the earlier one left, whatever the
				// number of stale entries and the batch size; drained and compared every third time
				if c.Idx%2 == 0 {
					if kept == nil {
						kept = dssync.MutexWrap(ds.NewMapDatastore())
					}
					b := batches[c.R.Intn(len(batches))]
					if c.R.Intn(3) == 0 {
						c.Obs("persists_over_stale_entries", vDsCount(kept))
						vPersistCheck(c, q, m, b, kept)
					} else if err := q.Persist(context.Background(), kept, b); err != nil {
						c.Fail("persist-error", "Persist over stale entries: %v", err)
					}
				}
				if len(m.prefixes) >= 2 {
					multi = true
				}
				if c.Failed() {
					break
				}
			}
			// additive drain into a non-empty queue + persisting over an older persisted state
			if !c.Failed() {
				store := dssync.MutexWrap(ds.NewMapDatastore())
				old := NewProvideQueue()
				old.Enqueue("0101", u.under("0101")...)
				old.Persist(context.Background(), store, 2) // stale content that Persist must replace
				if err := q.Persist(context.Background(), store, 1+c.R.Intn(3)); err != nil {
					c.Fail("persist-error", "Persist over older state: %v", err)
				}
				other, om := NewProvideQueue(), &vModel{u: u, keys: map[string]bool{}}
				for i := 0; i < 3; i++ {
					op := vRandOp(c, u, om)
					if op.Kind == "enq" {
						vApply(c, other, om, op)
					}
				}
				if err := other.DrainDatastore(context.Background(), store); err != nil {
					c.Fail("persist-error", "DrainDatastore: %v", err)
				}
				// model of an additive drain: enqueue every persisted (prefix, keys) in queue order
				mm := m.clone()
				for {
					p, keys, ok := mm.dequeue()
					if !ok {
						break
					}
					var ks []mh.Multihash
					for _, k := range keys {
						ks = append(ks, mh.Multihash(k))
					}
					om.enqueue(p, ks)
				}
				hasEmpty := false
				for _, p := range m.prefixes {
					hasEmpty = hasEmpty || p == ""
				}
				if other.NumRegions() != len(om.prefixes) || other.Size() != len(om.keys) {
					sig := "drain-additive"
					if hasEmpty {
						sig = "persist-restore/empty-prefix"
					}
					c.ClauseN("drain-additive", 1)
					c.FailSig("drain-additive", sig, "additive drain: queue has %d prefixes / %d keys, model %d / %d", other.NumRegions(), other.Size(), len(om.prefixes), len(om.keys))
				} else {
					vDrainCompare(c, other, om, "drain-additive", "additive DrainDatastore into a non-empty queue")
				}
			}
			// one case in 4: persist/restart of a queue with more regions than the histories above reach (<= 7)
			if !c.Failed() && c.R.Intn(4) == 0 {
				vWidePersist(c)
			}
			c.Set("ops", n)
			if overlap && multi {
				h := sha256.Sum256([]byte(strings.Join(states, ";")))
				c.Nontrivial(fmt.Sprintf("%x", h[:8]))
			}
		})
}

// exhaustive alphabet: 16 operations
func vAlphabet(u *vUniverse) []vOp {
	var ops []vOp
	for _, p := range []string{"", "0", "1", "00", "01", "10", "000"} {
		under := u.under(p)
		// two keys that differ per prefix length so that overlapping enqueues add new keys
		i := len(p) * 3 % len(under)
		ops = append(ops, vOp{Kind: "enq", Prefix: p, Keys: []mh.Multihash{under[i], under[(i+7)%len(under)]}})
	}
	ops = append(ops, vOp{Kind: "deq"})
	for _, p := range []string{"", "0", "00", "1"} {
		ops = append(ops, vOp{Kind: "deqm", Prefix: p})
	}
	ops = append(ops, vOp{Kind: "rem", Keys: []mh.Multihash{u.under("000")[0]}})
	ops = append(ops, vOp{Kind: "rem", Keys: []mh.Multihash{u.under("01")[3], u.under("01")[10%len(u.under("01"))]}})
	ops = append(ops, vOp{Kind: "rem", Keys: u.under("1")})
	ops = append(ops, vOp{Kind: "clear"})
	return ops
}

// TestVerif_C19_exhaustive: every history of length <= 3 over a 16-operation alphabet (quick),
// <= 4 (thorough), persist/restart after every step.
func TestVerif_C19_exhaustive(t *testing.T) {
	vh.Run(t, vh.Spec{Prop: "C19", Unit: "exhaustive", Quick: 16, Thorough: 16, CostMs: 600, Exhaustive: true,
		Rule: "ALL histories of length <= 3 (quick) / <= 4 (thorough) over a fixed alphabet of 16 operations (7 enqueues on nested prefixes incl. the empty one, dequeue, 4 dequeue-matching, 3 removes, clear); case i enumerates the histories whose first operation is i; persist/restart after every step; every history is non-trivial, distinct by construction (counted per first operation)",
		Clauses: []string{"dequeue-oldest", "dequeue-keys", "dequeue-matching", "persist-restore"}},
		func(c *vh.Case) {
			u := vUniv()
			alpha := vAlphabet(u)
			maxLen := 3
			if c.Tier == "thorough" {
				maxLen = 4
			}
			var rec func(q *ProvideQueue, m *vModel, hist []int)
			replay := func(hist []int) (*ProvideQueue, *vModel) {
				q, m := NewProvideQueue(), &vModel{u: u, keys: map[string]bool{}}
				for _, i := range hist {
					vApply(c, q, m, alpha[i])
				}
				return q, m
			}
			histories := 0
			rec = func(q *ProvideQueue, m *vModel, hist []int) {
				histories++
				vPersistCheck(c, q, m, 1+len(hist)%3, nil)
				if c.Failed() {
					c.Logf("history %v", hist)
					return
				}
				if len(hist) == maxLen {
					return
				}
				for i := range alpha {
					h2 := append(append([]int(nil), hist...), i)
					q2, m2 := replay(h2)
					if c.Failed() {
						c.Logf("history %v", h2)
						return
					}
					rec(q2, m2, h2)
					if c.Failed() {
						return
					}
				}
			}
			q, m := replay([]int{c.Idx})
			rec(q, m, []int{c.Idx})
			c.Obs("histories", histories)
			c.Set("first_op", alpha[c.Idx].String())
			c.Set("max_len", maxLen)
			c.Nontrivial(fmt.Sprintf("first-op-%d", c.Idx))
		})
}

// ---- reprovide queue -----------------------------------------------------------------------

func TestVerif_C19_reprovide(t *testing.T) {
	vh.Run(t, vh.Spec{Prop: "C19", Unit: "reprovide", Quick: 2500, Thorough: 200000, CostMs: 1,
		Rule: "PRNG histories of 5-30 enqueue(1-3 prefixes)/dequeue/remove/clear on ReprovideQueue vs. the list model (unique, non-overlapping, first-enqueue order, absorption at the position of the first superstring); non-trivial = at least one absorption and one covered enqueue; distinct by state sequence",
		Clauses: []string{"rq-dequeue", "rq-remove", "rq-size"}},
		func(c *vh.Case) {
			q := NewReprovideQueue()
			m := &vModel{keys: map[string]bool{}}
			n := 5 + c.R.Intn(26)
			absorbed, covered := false, false
			var states []string
			for i := 0; i < n && !c.Failed(); i++ {
				switch x := c.R.Intn(100); {
				case x < 55:
					k := 1 + c.R.Intn(3)
					var ps []bitstr.Key
					for j := 0; j < k; j++ {
						p := vPrefixPool[c.R.Intn(len(vPrefixPool))]
						ps = append(ps, bitstr.Key(p))
						before := append([]string(nil), m.prefixes...)
						m.push(p)
						if len(m.prefixes) < len(before) || (len(m.prefixes) == len(before) && !vEq(before, m.prefixes)) {
							absorbed = true
						}
						if vEq(before, m.prefixes) {
							covered = true
						}
					}
					c.Logf("Enqueue(%v)", ps)
					q.Enqueue(ps...)
				case x < 75:
					p, ok := q.Dequeue()
					mok := len(m.prefixes) > 0
					mp := ""
					if mok {
						mp = m.prefixes[0]
						m.prefixes = m.prefixes[1:]
					}
					c.Logf("Dequeue() = %q,%v", p, ok)
					c.Check(ok == mok && string(p) == mp, "rq-dequeue", "Dequeue returned (%q,%v), model (%q,%v)", p, ok, mp, mok)
				case x < 95:
					p := vPrefixPool[c.R.Intn(len(vPrefixPool))]
					got := q.Remove(bitstr.Key(p))
					var kept []string
					for _, e := range m.prefixes {
						if !strings.HasPrefix(e, p) {
							kept = append(kept, e)
						}
					}
					want := len(kept) != len(m.prefixes)
					m.prefixes = kept
					c.Logf("Remove(%q) = %v", p, got)
					c.Check(got == want, "rq-remove", "Remove(%q) returned %v, model %v", p, got, want)
				default:
					got := q.Clear()
					c.Check(got == len(m.prefixes), "rq-size", "Clear returned %d, model %d", got, len(m.prefixes))
					m.prefixes = nil
				}
				c.Check(q.Size() == len(m.prefixes) && q.IsEmpty() == (len(m.prefixes) == 0), "rq-size", "Size()=%d IsEmpty()=%v, model %v", q.Size(), q.IsEmpty(), m.prefixes)
				states = append(states, strings.Join(m.prefixes, ","))
				c.Obs("operations", 1)
			}
			// final drain: order must equal the model's
			for !c.Failed() {
				p, ok := q.Dequeue()
				if !ok {
					c.Check(len(m.prefixes) == 0, "rq-dequeue", "queue empty, model still holds %v", m.prefixes)
					break
				}
				if !c.Check(len(m.prefixes) > 0 && m.prefixes[0] == string(p), "rq-dequeue", "final drain returned %q, model %v", p, m.prefixes) {
					break
				}
				m.prefixes = m.prefixes[1:]
			}
			if absorbed && covered {
				h := sha256.Sum256([]byte(strings.Join(states, ";")))
				c.Nontrivial(fmt.Sprintf("%x", h[:8]))
			}
		})
}

// ---- concurrent conservation under the race detector ----------------------------------------

func TestVerifRace_C19_conserve(t *testing.T) {
	vh.Run(t, vh.Spec{Prop: "C19", Unit: "conserve", Quick: 30, Thorough: 600, CostMs: 40,
		Rule: "real-parallel: 3 producers enqueue disjoint unique keys under nested prefixes while 2 consumers dequeue / dequeue-matching and 1 remover removes; oracle = conservation (every enqueued key leaves exactly once or is still held), no key returned twice; run under -race; meanwhile an observer goroutine calls Persist (+ Size/NumRegions/IsEmpty) in a loop and restores every snapshot into a fresh queue (no key twice, only enqueued keys, non-overlapping prefixes); then a ReprovideQueue: 3 parallel producers (Enqueue of 1-3 nested prefixes per call) + observer, final content = the minimal elements of everything enqueued, then parallel Enqueue/Dequeue/Remove/Clear, remaining content unique, non-overlapping, only enqueued prefixes; non-trivial = consumers and remover all took keys; distinct by (taken-by-dequeue, taken-by-matching, removed) counts",
		Clauses: []string{"conservation", "no-duplicate-delivery", "persist-snapshot", "rq-parallel"}},
		func(c *vh.Case) {
			u := vUniv()
			q := NewProvideQueue()
			var mu sync.Mutex
			delivered := map[string]int{}
			var wg sync.WaitGroup
			parts := [][]mh.Multihash{u.under("0"), u.under("10"), u.under("11")}
			prefOf := []([]string){{"0", "00", "01", "000"}, {"10", "1", "101"}, {"11", "1", "111", "110"}}
			removed := map[string]bool{}
			var remKeys []mh.Multihash
			for i, k := range u.keys {
				if i%5 == 0 {
					remKeys = append(remKeys, k)
				}
			}
			stop := make(chan struct{})
			// observer: Persist is a snapshot taken under the queue's lock; it runs concurrently with the
			// producers / consumers and every snapshot must restore to a well-formed queue. Its first
			// access to the queue is Persist itself (nothing before it synchronises with the writers).
			var owg sync.WaitGroup
			snapshots, snapKeys, snapBad := 0, 0, ""
			owg.Add(1)
			go func() {
				defer owg.Done()
				ctx := context.Background()
				for {
					store := dssync.MutexWrap(ds.NewMapDatastore())
					if err := q.Persist(ctx, store, 3); err != nil {
						snapBad = "Persist: " + err.Error()
						return
					}
					fresh := NewProvideQueue()
					if err := fresh.DrainDatastore(ctx, store); err != nil {
						snapBad = "DrainDatastore: " + err.Error()
						return
					}
					size := fresh.Size()
					seen := map[string]bool{}
					var ps []string
					for {
						p, keys, ok := fresh.Dequeue()
						if !ok {
							break
						}
						for _, o := range ps {
							if strings.HasPrefix(o, string(p)) || strings.HasPrefix(string(p), o) {
								snapBad = fmt.Sprintf("snapshot restores overlapping prefixes %q and %q", o, p)
							}
						}
						ps = append(ps, string(p))
						for _, k := range keys {
							if _, known := u.bits[string(k)]; !known {
								snapBad = fmt.Sprintf("snapshot restores a key that was never enqueued under prefix %q", p)
							}
							if seen[string(k)] {
								snapBad = fmt.Sprintf("snapshot restores a key twice (prefix %q)", p)
							}
							seen[string(k)] = true
						}
					}
					if size != len(seen) {
						snapBad = fmt.Sprintf("restored snapshot: Size()=%d but %d keys dequeued", size, len(seen))
					}
					snapshots++
					snapKeys += len(seen)
					_, _, _ = q.Size(), q.NumRegions(), q.IsEmpty()
					select {
					case <-stop:
						return
					default:
					}
					runtime.Gosched()
				}
			}()
			for pi := range parts {
				wg.Add(1)
				go func(pi int, seed int64) {
					defer wg.Done()
					for i, k := range parts[pi] {
						bits := u.bits[string(k)]
						// choose a prefix of the key among this producer's pool
						var cand []string
						for _, p := range prefOf[pi] {
							if strings.HasPrefix(bits, p) {
								cand = append(cand, p)
							}
						}
						q.Enqueue(bitstr.Key(cand[(i+int(seed))%len(cand)]), k)
					}
				}(pi, c.R.Int63n(7))
			}
			var cwg sync.WaitGroup
			counts := [3]int{}
			take := func(kind int, keys []mh.Multihash) {
				mu.Lock()
				for _, k := range keys {
					delivered[string(k)]++
				}
				counts[kind] += len(keys)
				mu.Unlock()
			}
			for ci := 0; ci < 2; ci++ {
				cwg.Add(1)
				go func(ci int) {
					defer cwg.Done()
					for it := 0; ; it++ {
						select {
						case <-stop:
							return
						default:
						}
						if ci == 0 {
							_, keys, _ := q.Dequeue()
							take(0, keys)
						} else {
							take(1, q.DequeueMatching(bitstr.Key([]string{"00", "1", "011", ""}[it%4])))
						}
					}
				}(ci)
			}
			// remover: removes its keys only after the producers are done, so that "removed" is unambiguous
			wg.Wait()
			// keys still held now and in remKeys get removed; whether a consumer takes them first is decided by delivery counts
			q.Remove(remKeys...)
			for _, k := range remKeys {
				removed[string(k)] = true
			}
			close(stop)
			cwg.Wait()
			owg.Wait()
			c.Check(snapBad == "", "persist-snapshot", "Persist concurrent with enqueue/dequeue: %s", snapBad)
			c.Obs("concurrent_persist_snapshots", snapshots)
			c.Obs("concurrent_persist_snapshot_keys", snapKeys)
			// drain the rest
			for {
				_, keys, ok := q.Dequeue()
				if !ok {
					break
				}
				take(2, keys)
			}
			lost, dup := 0, 0
			for _, k := range u.keys {
				n := delivered[string(k)]
				if n > 1 {
					dup++
				}
				if n == 0 && !removed[string(k)] {
					lost++
				}
			}
			c.Check(lost == 0 && q.Size() == 0, "conservation", "%d enqueued keys neither delivered, removed nor held (Size=%d)", lost, q.Size())
			c.Check(dup == 0, "no-duplicate-delivery", "%d keys delivered more than once", dup)
			c.Obs("keys_enqueued", len(u.keys))
			c.Obs("keys_delivered", counts[0]+counts[1]+counts[2])
			vRqParallel(c)
			if counts[0] > 0 && counts[1] > 0 {
				c.Nontrivial(fmt.Sprintf("%d-%d-%d", counts[0], counts[1], counts[2]))
			}
		})
}

// vRqParallel: the reprovide queue under real parallelism (and the race detector).
// Phase A, enqueues only: whatever the interleaving, the queue ends up holding exactly the
// minimal elements (no proper prefix enqueued) of everything enqueued, each once.
// Phase B, Enqueue/Dequeue/Remove/Clear in parallel: what remains is unique, pairwise
// non-overlapping and was enqueued; Size agrees with the number of entries dequeued.
func vRqParallel(c *vh.Case) {
	rq := NewReprovideQueue()
	pool := vPrefixPool[1:] // without the empty prefix, which would absorb everything
	draw := func(calls int) [][]bitstr.Key {
		out := make([][]bitstr.Key, calls)
		for i := range out {
			for j := 0; j < 1+c.R.Intn(3); j++ {
				out[i] = append(out[i], bitstr.Key(pool[c.R.Intn(len(pool))]))
			}
		}
		return out
	}
	drain := func() ([]string, int) {
		size := rq.Size()
		var got []string
		for {
			p, ok := rq.Dequeue()
			if !ok {
				return got, size
			}
			got = append(got, string(p))
		}
	}
	wellFormed := func(got []string, pushed map[string]bool) string {
		for i, a := range got {
			if !pushed[a] {
				return fmt.Sprintf("prefix %q was never enqueued", a)
			}
			for j, b := range got {
				if i != j && strings.HasPrefix(a, b) {
					return fmt.Sprintf("prefixes %q and %q overlap", b, a)
				}
			}
		}
		return ""
	}
	// phase A
	pushed := map[string]bool{}
	lists := [][][]bitstr.Key{draw(12), draw(12), draw(12)}
	for _, l := range lists {
		for _, call := range l {
			for _, p := range call {
				pushed[string(p)] = true
			}
		}
	}
	start, done := make(chan struct{}), make(chan struct{})
	var wg, owg sync.WaitGroup
	for _, l := range lists {
		wg.Add(1)
		go func(l [][]bitstr.Key) {
			defer wg.Done()
			<-start
			for _, call := range l {
				rq.Enqueue(call...)
			}
		}(l)
	}
	owg.Add(1)
	go func() {
		defer owg.Done()
		<-start
		for {
			_, _ = rq.Size(), rq.IsEmpty()
			select {
			case <-done:
				return
			default:
			}
			runtime.Gosched()
		}
	}()
	close(start)
	wg.Wait()
	close(done)
	owg.Wait()
	var want []string
	for p := range pushed {
		minimal := true
		for o := range pushed {
			minimal = minimal && !(o != p && strings.HasPrefix(p, o))
		}
		if minimal {
			want = append(want, p)
		}
	}
	sort.Strings(want)
	got, size := drain()
	sorted := append([]string(nil), got...)
	sort.Strings(sorted)
	c.Check(vEq(sorted, want) && size == len(got), "rq-parallel", "3 parallel producers enqueued %d distinct prefixes: the queue holds %v (Size %d), want the minimal ones %v in some order", len(pushed), got, size, want)
	// phase B
	lists = [][][]bitstr.Key{draw(12), draw(12)}
	for _, l := range lists {
		for _, call := range l {
			for _, p := range call {
				pushed[string(p)] = true
			}
		}
	}
	rem := draw(10)
	clearAt := c.R.Intn(20)
	start = make(chan struct{})
	for _, l := range lists {
		wg.Add(1)
		go func(l [][]bitstr.Key) {
			defer wg.Done()
			<-start
			for _, call := range l {
				rq.Enqueue(call...)
			}
		}(l)
	}
	var deq []string
	wg.Add(2)
	go func() {
		defer wg.Done()
		<-start
		for i := 0; i < 10; i++ {
			if p, ok := rq.Dequeue(); ok {
				deq = append(deq, string(p))
			}
			runtime.Gosched()
		}
	}()
	go func() {
		defer wg.Done()
		<-start
		for i, call := range rem {
			rq.Remove(call[0])
			if i == clearAt {
				rq.Clear()
			}
			runtime.Gosched()
		}
	}()
	close(start)
	wg.Wait()
	got, size = drain()
	bad := wellFormed(got, pushed)
	if bad == "" {
		// dequeued entries may repeat or overlap over time, they only have to be known
		for _, p := range deq {
			if !pushed[p] {
				bad = fmt.Sprintf("Dequeue returned %q, which was never enqueued", p)
			}
		}
	}
	c.Check(bad == "" && size == len(got), "rq-parallel", "after parallel Enqueue/Dequeue/Remove/Clear the queue holds %v (Size %d): %s", got, size, bad)
	c.Obs("rq_parallel_enqueue_calls", 60)
}
