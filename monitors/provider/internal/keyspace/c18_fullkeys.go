//go:build verif

package keyspace

// C18/fullkeys — "uncovered gaps ... agree with their set-theoretic definitions on all inputs", for tries that hold
// full-length (256-bit) keys next to short prefixes: what the exploration records when a lookup returns a single
// peer (its whole kademlia id becomes the covered prefix). The exhaustive and history units enumerate short keys;
// here the definition is checked pointwise: the gaps are pairwise disjoint, lie under the target, are disjoint from
// every key of the trie, and together with the keys they tile the target - probed at every point where a full key
// branches off (k[:i] + the other bit + a PRNG tail, for every i from the target's length to 255) and at PRNG
// points.

import (
	"fmt"
	"strings"
	"testing"

	"github.com/ipfs/go-libdht/kad/key/bit256"
	"github.com/ipfs/go-libdht/kad/key/bitstr"
	"github.com/ipfs/go-libdht/kad/trie"

	"github.com/libp2p/go-libp2p-kad-dht/internal/verif/vh"
)

func TestVerif_C18_fullkeys(t *testing.T) {
	vh.Run(t, vh.Spec{Prop: "C18", Unit: "fullkeys", Quick: 400, Thorough: 20000, CostMs: 3,
		Rule:    "tries of 1-4 prefix-free bitstr keys of which 1-2 are full 256-bit keys (PRNG) and the others prefixes of length 1-12 or 200-255; TrieGaps for 4 targets per case: the empty prefix, a PRNG-length prefix of a full key (0-256 bits), a prefix of another key, a prefix under which the trie holds nothing; all-zero or PRNG order key; oracle pointwise over 256-bit probe points under the target: every branch-off point of every key (other bit at every depth from the target's length on, PRNG tail) and 64 PRNG points: each lies under exactly one gap or under a key of the trie, never both, never two gaps; every gap lies under the target (or is the target's covering key case: no gaps when a key covers the target); non-trivial = a full key lay under the target; distinct by (key lengths, target length)",
		Clauses: []string{"gaps-under-target", "gaps-disjoint", "gaps-tile-target", "gaps-exclude-covered"}},
		func(c *vh.Case) {
			r := c.R
			rnd := func(n int) string {
				b := make([]byte, n)
				for i := range b {
					b[i] = '0' + byte(r.Intn(2))
				}
				return string(b)
			}
			var keys []string
			prefixFree := func(k string) bool {
				for _, o := range keys {
					if strings.HasPrefix(o, k) || strings.HasPrefix(k, o) {
						return false
					}
				}
				return true
			}
			nFull := 1 + r.Intn(2)
			for len(keys) < nFull {
				if k := rnd(256); prefixFree(k) {
					keys = append(keys, k)
				}
			}
			for i := r.Intn(3); i > 0; i-- {
				l := 1 + r.Intn(12)
				if r.Intn(3) == 0 {
					l = 200 + r.Intn(56)
				}
				k := rnd(l)
				if r.Intn(2) == 0 { // share a long prefix with a full key
					f := keys[r.Intn(nFull)]
					if l > 1 {
						k = f[:l-1] + string('0'+('1'-f[l-1]))
					}
				}
				if prefixFree(k) {
					keys = append(keys, k)
				}
			}
			tr := trie.New[bitstr.Key, struct{}]()
			for _, k := range keys {
				tr.Add(bitstr.Key(k), struct{}{})
			}
			order := bit256.ZeroKey()
			if r.Intn(2) == 0 {
				var b [32]byte
				r.Read(b[:])
				order = bit256.NewKey(b[:])
			}
			full := keys[r.Intn(nFull)]
			targets := []string{"", full[:r.Intn(257)], keys[len(keys)-1][:r.Intn(len(keys[len(keys)-1])+1)], rnd(1 + r.Intn(20))}
			for _, tg := range targets {
				gaps := TrieGaps(tr, bitstr.Key(tg), order)
				var gs []string
				for _, g := range gaps {
					gs = append(gs, string(g))
				}
				what := fmt.Sprintf("keys of lengths %v, target of %d bits", vC18Lens(keys), len(tg))
				coveredBy := func(p string) string { // the key that covers point p ("" if none)
					for _, k := range keys {
						if strings.HasPrefix(p, k) {
							return k
						}
					}
					return ""
				}
				// a key covering the whole target: nothing is uncovered
				if k := func() string {
					for _, k := range keys {
						if strings.HasPrefix(tg, k) {
							return k
						}
					}
					return ""
				}(); k != "" {
					c.Check(len(gs) == 0, "gaps-exclude-covered", "%s: a key of %d bits covers the target, yet %d gaps are reported", what, len(k), len(gs))
					continue
				}
				for i, g := range gs {
					c.Check(strings.HasPrefix(g, tg), "gaps-under-target", "%s: gap of %d bits does not lie under the target", what, len(g))
					for j, h := range gs {
						if i < j {
							c.Check(!strings.HasPrefix(g, h) && !strings.HasPrefix(h, g), "gaps-disjoint", "%s: gaps of %d and %d bits overlap", what, len(g), len(h))
						}
					}
					for _, k := range keys {
						c.Check(!strings.HasPrefix(g, k) && !strings.HasPrefix(k, g), "gaps-exclude-covered", "%s: gap of %d bits overlaps a key of %d bits", what, len(g), len(k))
					}
				}
				var probes []string
				for _, k := range keys {
					if !strings.HasPrefix(k, tg) {
						continue
					}
					for i := len(tg); i < len(k); i++ {
						p := k[:i] + string('0'+('1'-k[i]))
						probes = append(probes, p+rnd(256-len(p)))
					}
				}
				for i := 0; i < 64; i++ {
					probes = append(probes, tg+rnd(256-len(tg)))
				}
				bad := 0
				for _, p := range probes {
					n := 0
					for _, g := range gs {
						if strings.HasPrefix(p, g) {
							n++
						}
					}
					cov := coveredBy(p)
					ok := (cov != "" && n == 0) || (cov == "" && n == 1)
					c.Clause("gaps-tile-target")
					if !ok && bad < 3 {
						bad++
						c.Check(false, "gaps-tile-target", "%s: the point that shares %d bits with a key lies under %d gaps and is covered by a key: %v (%d gaps reported)", what, vC18Cpl(p, keys), n, cov != "", len(gs))
					}
				}
				if strings.HasPrefix(full, tg) {
					c.Nontrivial(fmt.Sprintf("%v/%d", vC18Lens(keys), len(tg)))
				}
			}
		})
}

func vC18Lens(keys []string) []int {
	out := make([]int, len(keys))
	for i, k := range keys {
		out[i] = len(k)
	}
	return out
}

func vC18Cpl(p string, keys []string) int {
	best := 0
	for _, k := range keys {
		i := 0
		for i < len(k) && i < len(p) && k[i] == p[i] {
			i++
		}
		if i > best {
			best = i
		}
	}
	return best
}
