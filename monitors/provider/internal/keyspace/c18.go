//go:build verif

package keyspace

// C18 — keyspace region planning is exact on every input (part 1: allocation, regions,
// ShortestCoveredPrefix; the prefix-set operations are in c18_prefix.go).
//
// Every oracle in here is evaluated by this file's own arithmetic on raw bits: kademlia
// identifiers are sha256 digests computed here, XOR distances are compared big-endian on the
// digests, prefixes are plain strings of '0'/'1'. Nothing of the keyspace package is used to
// compute an expectation; tries handed back by the code under test are read with a walker
// that only follows Branch/Key/Data.

import (
	"bytes"
	"crypto/sha256"
	"encoding/binary"
	"fmt"
	"sort"
	"strings"
	"sync"
	"testing"

	"github.com/ipfs/go-libdht/kad"
	"github.com/ipfs/go-libdht/kad/key/bit256"
	"github.com/ipfs/go-libdht/kad/key/bitstr"
	"github.com/ipfs/go-libdht/kad/trie"
	"github.com/libp2p/go-libp2p/core/peer"
	mh "github.com/multiformats/go-multihash"

	"github.com/libp2p/go-libp2p-kad-dht/internal/verif/vh"
)

// ---- independent identifier arithmetic -------------------------------------------------------

type vC18ID [32]byte

func (h vC18ID) bit(i int) byte { return (h[i/8] >> (7 - uint(i%8))) & 1 }

func (h vC18ID) bits(n int) string {
	if n > 256 {
		n = 256
	}
	b := make([]byte, n)
	for i := range b {
		b[i] = '0' + h.bit(i)
	}
	return string(b)
}

func (h vC18ID) hasPrefix(p string) bool {
	if len(p) > 256 {
		return false
	}
	for i := 0; i < len(p); i++ {
		if h.bit(i) != p[i]-'0' {
			return false
		}
	}
	return true
}

// vC18CplStr is the number of leading bits of h equal to those of the bit string s.
func vC18CplStr(s string, h vC18ID) int {
	n := len(s)
	if n > 256 {
		n = 256
	}
	for i := 0; i < n; i++ {
		if h.bit(i) != s[i]-'0' {
			return i
		}
	}
	return n
}

// vC18Closer reports whether a is strictly XOR-closer to t than b.
func vC18Closer(t, a, b vC18ID) bool {
	for i := 0; i < 32; i++ {
		da, db := a[i]^t[i], b[i]^t[i]
		if da != db {
			return da < db
		}
	}
	return false
}

// vC18Ent is a peer or a key: raw bytes (peer.ID / multihash) and the sha256 of the raw bytes.
type vC18Ent struct {
	raw string
	h   vC18ID
}

var (
	vC18PoolOnce sync.Once
	vC18PeerPool []vC18Ent // sorted by h
	vC18KeyPool  []vC18Ent // sorted by h
)

const vC18PoolBits = 16

// vC18Pools builds (once per process, deterministically from VERIF_SEED) 65 536 peer IDs and
// 65 536 multihashes, sorted by kademlia identifier, so that "all peers under a prefix" is a
// range and deep, densely populated prefixes are available without a search per case.
func vC18Pools() ([]vC18Ent, []vC18Ent) {
	vC18PoolOnce.Do(func() {
		mk := func(tag byte) []vC18Ent {
			out := make([]vC18Ent, 1<<vC18PoolBits)
			for i := range out {
				var raw [34]byte
				raw[0], raw[1] = 0x12, 0x20 // sha2-256 multihash header: a well-formed peer.ID / multihash
				binary.BigEndian.PutUint64(raw[2:], uint64(vh.Seed()))
				binary.BigEndian.PutUint32(raw[10:], uint32(i))
				raw[14] = tag
				out[i] = vC18Ent{raw: string(raw[:]), h: sha256.Sum256(raw[:])}
			}
			sort.Slice(out, func(a, b int) bool { return bytes.Compare(out[a].h[:], out[b].h[:]) < 0 })
			return out
		}
		vC18PeerPool, vC18KeyPool = mk('P'), mk('K')
	})
	return vC18PeerPool, vC18KeyPool
}

// vC18Range returns the index range [lo,hi) of the pool entries whose identifier starts with prefix.
func vC18Range(pool []vC18Ent, prefix string) (int, int) {
	var lo, hi vC18ID
	for i := range hi {
		hi[i] = 0xff
	}
	for i := 0; i < len(prefix); i++ {
		m := byte(1) << (7 - uint(i%8))
		if prefix[i] == '1' {
			lo[i/8] |= m
		} else {
			hi[i/8] &^= m
		}
	}
	a := sort.Search(len(pool), func(i int) bool { return bytes.Compare(pool[i].h[:], lo[:]) >= 0 })
	b := sort.Search(len(pool), func(i int) bool { return bytes.Compare(pool[i].h[:], hi[:]) > 0 })
	return a, b
}

// vC18Pick draws up to n distinct pool entries under prefix; when clustered, most of them come
// from 1-3 deeper sub-prefixes so that the peers trie is unbalanced.
func vC18Pick(c *vh.Case, pool []vC18Ent, prefix string, n int, clustered bool) []vC18Ent {
	lo, hi := vC18Range(pool, prefix)
	if hi-lo <= n {
		return append([]vC18Ent(nil), pool[lo:hi]...)
	}
	chosen := map[int]bool{}
	if clustered {
		ncl := 1 + c.R.Intn(3)
		for j := 0; j < ncl; j++ {
			e := pool[lo+c.R.Intn(hi-lo)]
			sub := e.h.bits(len(prefix) + 1 + c.R.Intn(7))
			slo, shi := vC18Range(pool, sub)
			share := n/(ncl+1) + 1
			for t := 0; t < 4*share && share > 0 && len(chosen) < n; t++ {
				i := slo + c.R.Intn(shi-slo)
				if !chosen[i] {
					chosen[i] = true
					share--
				}
			}
		}
	}
	for len(chosen) < n {
		chosen[lo+c.R.Intn(hi-lo)] = true
	}
	idx := make([]int, 0, len(chosen))
	for i := range chosen {
		idx = append(idx, i)
	}
	sort.Ints(idx)
	out := make([]vC18Ent, len(idx))
	for i, j := range idx {
		out[i] = pool[j]
	}
	c.R.Shuffle(len(out), func(i, j int) { out[i], out[j] = out[j], out[i] })
	return out
}

// vC18Walk visits every (key, data) stored in a trie using only the structural accessors.
func vC18Walk[K kad.Key[K], D any](t *trie.Trie[K, D], f func(k K, d D)) {
	if t == nil {
		return
	}
	if t.IsLeaf() {
		if t.HasKey() {
			f(*t.Key(), t.Data())
		}
		return
	}
	vC18Walk(t.Branch(0), f)
	vC18Walk(t.Branch(1), f)
}

func vC18KeyIs(k bit256.Key, h vC18ID) bool {
	if k.BitLen() != 256 {
		return false
	}
	for i := 0; i < 256; i++ {
		if byte(k.Bit(i)) != h.bit(i) {
			return false
		}
	}
	return true
}

// vC18Failer records the first violation of every signature in a case (with its witness) and
// counts the others, so that an exhaustive case with thousands of hits stays readable.
type vC18Failer struct {
	c    *vh.Case
	seen map[string]int
}

func vC18NewFailer(c *vh.Case) *vC18Failer { return &vC18Failer{c: c, seen: map[string]int{}} }

func (f *vC18Failer) fail(clause, sig, format string, args ...any) {
	f.seen[sig]++
	if f.seen[sig] == 1 {
		f.c.FailSig(clause, sig, format, args...)
	}
	f.c.Obs("violations:"+sig, 1)
}

// check counts the clause as exercised and records a violation under sig when !ok.
func (f *vC18Failer) check(ok bool, clause, sig, format string, args ...any) bool {
	f.c.Clause(clause)
	if !ok {
		f.fail(clause, sig, format, args...)
	}
	return ok
}

func vC18Short(raw string) string { return fmt.Sprintf("%x", raw[10:14]) }

// ---- alloc_exhaustive ------------------------------------------------------------------------

var vC18KeyStr = func() [6][]bitstr.Key {
	var t [6][]bitstr.Key
	for n := 1; n <= 5; n++ {
		t[n] = make([]bitstr.Key, 1<<n)
		for v := range t[n] {
			t[n][v] = bitstr.Key(fmt.Sprintf("%0*b", n, v))
		}
	}
	return t
}()

func vC18SmallTrie(nbits int, mask uint32) *trie.Trie[bitstr.Key, int] {
	t := trie.New[bitstr.Key, int]()
	for v := 0; v < 1<<nbits; v++ {
		if mask&(1<<v) != 0 {
			t.Add(vC18KeyStr[nbits][v], v)
		}
	}
	return t
}

func vC18MaskStr(nbits int, mask uint32) string {
	var s []string
	for v := 0; v < 1<<nbits; v++ {
		if mask&(1<<v) != 0 {
			s = append(s, string(vC18KeyStr[nbits][v]))
		}
	}
	return "{" + strings.Join(s, ",") + "}"
}

// vC18AllocCtx keeps per-case clause counters (flushed once) so that millions of evaluations
// do not go through the case mutex.
type vC18AllocCtx struct {
	f  *vC18Failer
	cl map[string]int
}

func (a *vC18AllocCtx) check(ok bool, clause, sig string, detail func() string) bool {
	a.cl[clause]++
	if !ok {
		a.f.fail(clause, sig, "%s", detail())
	}
	return ok
}

func (a *vC18AllocCtx) flush() {
	for k, n := range a.cl {
		a.f.c.ClauseN(k, n)
	}
}

// vC18AllocEval runs AllocateToKClosest on fixed-length keys and compares with brute force.
func vC18AllocEval(a *vC18AllocCtx, nbits int, destMask, itemMask uint32, dests, items *trie.Trie[bitstr.Key, int], k int) {
	res := AllocateToKClosest(items, dests, k)
	n := 1 << nbits
	var recv [32]uint32 // item -> set of destinations
	dup, foreign := false, false
	for d, batches := range res {
		if d < 0 || d >= n || destMask&(1<<d) == 0 {
			foreign = true
			continue
		}
		for _, b := range batches {
			for _, it := range b {
				if it < 0 || it >= n || itemMask&(1<<it) == 0 {
					foreign = true
					continue
				}
				if recv[it]&(1<<d) != 0 {
					dup = true
				}
				recv[it] |= 1 << d
			}
		}
	}
	in := func() string {
		return fmt.Sprintf("items=%s dests=%s k=%d -> %v", vC18MaskStr(nbits, itemMask), vC18MaskStr(nbits, destMask), k, res)
	}
	a.check(!foreign, "alloc-foreign", "alloc/foreign", func() string { return "allocation names a destination or item that was not supplied: " + in() })
	a.check(!dup, "alloc-no-duplicate", "alloc/duplicate", func() string { return "an item is allocated twice to the same destination: " + in() })
	if destMask == 0 || itemMask == 0 || k == 0 {
		a.check(len(res) == 0, "alloc-empty", "alloc/empty-input", func() string { return "empty input must allocate nothing: " + in() })
		return
	}
	want := vC18Popcount(destMask)
	if k < want {
		want = k
	}
	for it := 0; it < n; it++ {
		if itemMask&(1<<it) == 0 {
			continue
		}
		// the `want` XOR-nearest destinations: walk the distances 0,1,2,... (d = it ^ dist)
		var exp uint32
		for dist, left := 0, want; left > 0; dist++ {
			if d := it ^ dist; destMask&(1<<d) != 0 {
				exp |= 1 << d
				left--
			}
		}
		got := recv[it]
		cnt := vC18Popcount(got)
		if !a.check(cnt == want, "alloc-count", "alloc/count", func() string {
			return fmt.Sprintf("item %s allocated to %d destinations %s, want min(k,#dests)=%d: %s", vC18KeyStr[nbits][it], cnt, vC18MaskStr(nbits, got), want, in())
		}) {
			continue
		}
		a.check(got == exp, "alloc-nearest", "alloc/not-xor-nearest", func() string {
			return fmt.Sprintf("item %s allocated to %s, XOR-nearest %d are %s: %s", vC18KeyStr[nbits][it], vC18MaskStr(nbits, got), want, vC18MaskStr(nbits, exp), in())
		})
	}
}

func vC18Popcount(x uint32) int {
	n := 0
	for ; x != 0; x &= x - 1 {
		n++
	}
	return n
}

// TestVerif_C18_alloc_exhaustive: AllocateToKClosest on tries rooted at the same depth.
func TestVerif_C18_alloc_exhaustive(t *testing.T) {
	vh.Run(t, vh.Spec{Prop: "C18", Unit: "alloc_exhaustive", Quick: 256, Thorough: 8192, CostMs: 100, Exhaustive: true,
		Rule: "AllocateToKClosest over fixed-length bitstr keys, complete enumeration: 3-bit keys, ALL 256 destination subsets x 256 item subsets x k=0..9 (case i < 256 = destination subset i); 4-bit keys, ALL 65 536 destination subsets (subset m in case m mod #cases) x every single item x k in {1,2,3,5,8,16,17} (quick) / x every item set of size <= 2 x k=0..17 (thorough). Oracle: brute-force XOR distance on the integers. Every case is non-trivial (counted per case index)",
		Clauses: []string{"alloc-count", "alloc-nearest", "alloc-no-duplicate", "alloc-foreign", "alloc-empty"}},
		func(c *vh.Case) {
			f := &vC18AllocCtx{f: vC18NewFailer(c), cl: map[string]int{}}
			defer f.flush()
			ncases := c.Spec.Quick
			if c.Tier == "thorough" {
				ncases = c.Spec.Thorough
			}
			evals := 0
			if c.Idx < 256 {
				dm := uint32(c.Idx)
				dests := vC18SmallTrie(3, dm)
				for im := uint32(0); im < 256; im++ {
					items := vC18SmallTrie(3, im)
					for k := 0; k <= 9; k++ {
						vC18AllocEval(f, 3, dm, im, dests, items, k)
						evals++
					}
				}
			}
			// 4-bit keys
			var itemSets []uint32
			ks := []int{1, 2, 3, 5, 8, 16, 17}
			for a := 0; a < 16; a++ {
				itemSets = append(itemSets, 1<<a)
			}
			if c.Tier == "thorough" {
				itemSets = append(itemSets, 0)
				for a := 0; a < 16; a++ {
					for b := a + 1; b < 16; b++ {
						itemSets = append(itemSets, 1<<a|1<<b)
					}
				}
				ks = nil
				for k := 0; k <= 17; k++ {
					ks = append(ks, k)
				}
			}
			itemTries := make([]*trie.Trie[bitstr.Key, int], len(itemSets))
			for i, im := range itemSets {
				itemTries[i] = vC18SmallTrie(4, im)
			}
			for dm := uint32(c.Idx); dm < 1<<16; dm += uint32(ncases) {
				dests := vC18SmallTrie(4, dm)
				for i, im := range itemSets {
					for _, k := range ks {
						vC18AllocEval(f, 4, dm, im, dests, itemTries[i], k)
						evals++
					}
				}
			}
			c.Obs("alloc_evaluations", evals)
			c.Set("first_dest_subset", c.Idx)
			c.Nontrivial(fmt.Sprintf("case-%d", c.Idx))
		})
}

// ---- planner composition: generator ----------------------------------------------------------

type vC18Plan struct {
	r       int
	cp      string
	peers   []vC18Ent
	keys    []vC18Ent // distinct
	outside int       // number of keys that do not match cp
	dupKey  bool      // first key handed in twice
	order   vC18ID
}

func (p *vC18Plan) peerIDs() []peer.ID {
	out := make([]peer.ID, len(p.peers))
	for i, e := range p.peers {
		out[i] = peer.ID(e.raw)
	}
	return out
}

func (p *vC18Plan) mhs() []mh.Multihash {
	out := make([]mh.Multihash, 0, len(p.keys)+1)
	for _, e := range p.keys {
		out = append(out, mh.Multihash(e.raw))
	}
	if p.dupKey && len(p.keys) > 0 {
		out = append(out, mh.Multihash(p.keys[0].raw))
	}
	return out
}

func vC18GenPlan(c *vh.Case) *vC18Plan {
	peers, keys := vC18Pools()
	R := c.R
	p := &vC18Plan{}
	rs := []int{1, 2, 3, 4, 5, 8, 10, 16, 20}
	if R.Intn(3) == 0 {
		p.r = 1 + R.Intn(20)
	} else {
		p.r = rs[R.Intn(len(rs))]
	}
	R.Read(p.order[:])
	base := peers[R.Intn(len(peers))]
	if R.Intn(20) == 0 {
		// a single peer, covered prefix = any prefix of its identifier (up to the full key)
		p.cp = base.h.bits([]int{0, 1, 7, 64, 255, 256}[R.Intn(6)])
		p.peers = []vC18Ent{base}
	} else {
		cl := R.Intn(10)
		p.cp = base.h.bits(cl)
		var n int
		switch x := R.Intn(10); {
		case x == 0 && p.r > 1:
			n = 1 + R.Intn(p.r-1)
		case x == 1:
			n = p.r
		case x < 5:
			n = p.r + R.Intn(2*p.r+1)
		default:
			n = p.r + R.Intn(7*p.r+1)
		}
		if n > 140 {
			n = 140
		}
		p.peers = vC18Pick(c, peers, p.cp, n, R.Intn(2) == 0)
	}
	m := 1 + R.Intn(80)
	kp := p.cp
	if len(kp) > 12 {
		kp = kp[:12] // single-peer plans with a very long covered prefix: keys cannot match it
	}
	p.keys = vC18Pick(c, keys, kp, m, R.Intn(2) == 0)
	if len(p.cp) > 0 && R.Intn(8) == 0 {
		// a few keys outside the covered prefix: documented fallback = nearest region
		for i := 0; i < 1+R.Intn(4); i++ {
			e := keys[R.Intn(len(keys))]
			dup := false
			for _, o := range p.keys {
				dup = dup || o.raw == e.raw
			}
			if !dup {
				p.keys = append(p.keys, e)
			}
		}
	}
	for _, e := range p.keys {
		if !e.h.hasPrefix(p.cp) {
			p.outside++
		}
	}
	p.dupKey = R.Intn(16) == 0
	c.Set("replication", p.r)
	c.Set("covered_prefix", p.cp)
	c.Set("peers", len(p.peers))
	c.Set("keys", len(p.keys))
	c.Set("keys_outside_covered_prefix", p.outside)
	c.Set("order", fmt.Sprintf("%x", p.order[:4]))
	return p
}

func vC18Order(o vC18ID) bit256.Key { return bit256.NewKeyFromArray(o) }

// vC18Below renders a region prefix relative to the covered prefix ("+bits"), or in full when
// it does not extend it.
func vC18Below(prefix, cp string) string {
	if strings.HasPrefix(prefix, cp) {
		return "+" + prefix[len(cp):]
	}
	return prefix
}

// ---- alloc_composed --------------------------------------------------------------------------

func TestVerif_C18_alloc_composed(t *testing.T) {
	vh.Run(t, vh.Spec{Prop: "C18", Unit: "alloc_composed", Quick: 3000, Thorough: 200000, CostMs: 2,
		Rule: "the planner's composition exactly as provider.provideRegions uses it: RegionsFromPeers(peers, r, order, coveredPrefix) -> AssignKeysToRegions(regions, keys) -> per non-empty region AllocateToKClosest(region.Keys, region.Peers, r), then PruneSubtrie(Keys,\"\")/PruneSubtrie(Peers,\"\") as the provider does before sending. PRNG: r in 1..20, covered prefix of 0-9 bits, 1-140 peers drawn (uniformly or clustered under 1-3 deeper sub-prefixes) from a pool of 65 536 peer IDs under that prefix, 1-80 multihashes from a pool of 65 536 under it (sometimes a few outside, sometimes one handed in twice). Oracle (own sha256 + big-endian XOR): each key reaches exactly min(r,#region peers) distinct peers = the XOR-nearest of the region's peers. Non-trivial = some region rooted below depth 0 holds more than r peers and at least one key; distinct by (r, region prefixes, sizes)",
		Clauses: []string{"alloc-count", "alloc-nearest", "alloc-no-duplicate", "alloc-foreign", "key-allocated-once", "prune-all"}},
		func(c *vh.Case) {
			f := vC18NewFailer(c)
			p := vC18GenPlan(c)
			byRaw := map[string]vC18Ent{}
			for _, e := range p.peers {
				byRaw[e.raw] = e
			}
			for _, e := range p.keys {
				byRaw[e.raw] = e
			}
			regions := RegionsFromPeers(p.peerIDs(), p.r, vC18Order(p.order), bitstr.Key(p.cp))
			regions = AssignKeysToRegions(regions, p.mhs())
			c.Obs("regions", len(regions))
			seenKey := map[string]int{}
			nt := false
			var shape []string
			for _, r := range regions {
				if r.Keys == nil || r.Keys.IsEmptyLeaf() {
					shape = append(shape, fmt.Sprintf("%s:%d:0", vC18Below(string(r.Prefix), p.cp), r.Peers.Size()))
					continue
				}
				var rp, rk []vC18Ent
				vC18Walk(r.Peers, func(_ bit256.Key, id peer.ID) { rp = append(rp, byRaw[string(id)]) })
				vC18Walk(r.Keys, func(_ bit256.Key, h mh.Multihash) { rk = append(rk, byRaw[string(h)]) })
				shape = append(shape, fmt.Sprintf("%s:%d:%d", vC18Below(string(r.Prefix), p.cp), len(rp), len(rk)))
				alloc := AllocateToKClosest(r.Keys, r.Peers, p.r)
				PruneSubtrie(r.Keys, bitstr.Key(""))
				PruneSubtrie(r.Peers, bitstr.Key(""))
				f.check(r.Keys.IsEmptyLeaf() && r.Peers.IsEmptyLeaf() && r.Keys.Size() == 0 && r.Peers.Size() == 0, "prune-all", "alloc-composed/prune-all",
					"PruneSubtrie(\"\") left %d keys / %d peers in region %q", r.Keys.Size(), r.Peers.Size(), r.Prefix)
				c.Obs("regions_allocated", 1)
				c.Obs("keys_allocated", len(rk))
				if len(rp) > p.r && len(r.Prefix) > 0 {
					nt = true
				}
				inRegionP, inRegionK := map[string]bool{}, map[string]bool{}
				for _, e := range rp {
					inRegionP[e.raw] = true
				}
				for _, e := range rk {
					inRegionK[e.raw] = true
					seenKey[e.raw]++
				}
				recv := map[string]map[string]int{}
				foreign := ""
				for pid, batches := range alloc {
					if !inRegionP[string(pid)] {
						foreign = fmt.Sprintf("peer %x is not in the region", string(pid))
					}
					for _, b := range batches {
						for _, h := range b {
							if !inRegionK[string(h)] {
								foreign = fmt.Sprintf("key %x is not in the region", string(h))
								continue
							}
							if recv[string(h)] == nil {
								recv[string(h)] = map[string]int{}
							}
							recv[string(h)][string(pid)]++
						}
					}
				}
				f.check(foreign == "", "alloc-foreign", "alloc-composed/foreign", "region %q: %s", r.Prefix, foreign)
				want := p.r
				if len(rp) < want {
					want = len(rp)
				}
				for _, k := range rk {
					sort.Slice(rp, func(a, b int) bool { return vC18Closer(k.h, rp[a].h, rp[b].h) })
					rank := map[string]int{}
					for i, e := range rp {
						rank[e.raw] = i
					}
					var ranks []int
					dup := false
					for pid, n := range recv[k.raw] {
						ranks = append(ranks, rank[pid])
						dup = dup || n > 1
					}
					sort.Ints(ranks)
					c.Obs("key_allocations_judged", 1)
					f.check(!dup, "alloc-no-duplicate", "alloc-composed/duplicate", "region %q (%d peers, r=%d): key %s is in two batches of the same peer", r.Prefix, len(rp), p.r, vC18Short(k.raw))
					if !f.check(len(ranks) == want, "alloc-count", "alloc-composed/count", "region %q (%d peers, r=%d): key %s (id %s…) allocated to %d distinct peers, want %d; XOR ranks of the recipients %v",
						r.Prefix, len(rp), p.r, vC18Short(k.raw), k.h.bits(len(r.Prefix)+8), len(ranks), want, ranks) {
						continue
					}
					ok := true
					for i, x := range ranks {
						ok = ok && x == i
					}
					f.check(ok, "alloc-nearest", "alloc-composed/not-xor-nearest", "region %q (%d peers, r=%d): key %s (id %s…) allocated to the peers of XOR rank %v among the region's peers, want ranks 0..%d",
						r.Prefix, len(rp), p.r, vC18Short(k.raw), k.h.bits(len(r.Prefix)+8), ranks, want-1)
				}
			}
			for _, k := range p.keys {
				f.check(seenKey[k.raw] == 1, "key-allocated-once", "alloc-composed/key-region", "key %s (id %s…) is held by %d regions (prefixes %v), want exactly 1",
					vC18Short(k.raw), k.h.bits(len(p.cp)+6), seenKey[k.raw], shape)
			}
			c.Logf("r=%d covered=%q peers=%d keys=%d regions(prefix below covered:peers:keys)=%v", p.r, p.cp, len(p.peers), len(p.keys), shape)
			if nt {
				c.Nontrivial(fmt.Sprintf("%d|%s|%s", p.r, p.cp, strings.Join(shape, ",")))
			}
		})
}

// ---- regions ---------------------------------------------------------------------------------

// vC18OrderLess: of two prefixes neither of which is a prefix of the other, the one whose
// first differing bit equals the order's bit comes first.
func vC18OrderLess(a, b string, orderBit func(i int) byte) (less, comparable bool) {
	for i := 0; i < len(a) && i < len(b); i++ {
		if a[i] != b[i] {
			return a[i]-'0' == orderBit(i), true
		}
	}
	return false, false
}

func TestVerif_C18_regions(t *testing.T) {
	vh.Run(t, vh.Spec{Prop: "C18", Unit: "regions", Quick: 3000, Thorough: 200000, CostMs: 2,
		Rule: "RegionsFromPeers + AssignKeysToRegions vs. their definitions on the same PRNG plans as alloc_composed (r in 1..20, covered prefix 0-9 bits or any prefix of a single peer's key, 1-140 uniform/clustered peers, 1-80 keys, some outside the covered prefix); one case in 8 also assigns keys to a hand-made non-covering prefix-free region list. Non-trivial = at least 2 regions of which one is deeper than the covered prefix + 1 bit; distinct by (r, covered prefix, region prefixes, sizes)",
		Clauses: []string{"regions-peers-partition", "regions-prefix-partition", "regions-min-size", "regions-minimal", "regions-order", "regions-trie-keys", "keys-one-region", "keys-nearest-fallback", "keys-trie-entries"}},
		func(c *vh.Case) {
			f := vC18NewFailer(c)
			p := vC18GenPlan(c)
			if c.R.Intn(40) == 0 {
				got := RegionsFromPeers(nil, p.r, vC18Order(p.order), bitstr.Key(p.cp))
				f.check(len(got) == 0, "regions-peers-partition", "regions/no-peers", "RegionsFromPeers without peers returned %d regions", len(got))
			}
			regions := RegionsFromPeers(p.peerIDs(), p.r, vC18Order(p.order), bitstr.Key(p.cp))
			c.Obs("regions", len(regions))
			var shape []string
			desc := func() string {
				return fmt.Sprintf("r=%d covered=%q peers=%d regions(prefix:peers)=%v", p.r, p.cp, len(p.peers), shape)
			}
			byRaw := map[string]vC18Ent{}
			for _, e := range p.peers {
				byRaw[e.raw] = e
			}
			for _, r := range regions {
				shape = append(shape, fmt.Sprintf("%s:%d", r.Prefix, r.Peers.Size()))
			}
			// (1) peers: every peer in exactly one region, namely the one whose prefix it matches
			count := map[string]int{}
			trieOK, matchOK, sizeOK := "", "", ""
			for _, r := range regions {
				n := 0
				vC18Walk(r.Peers, func(k bit256.Key, id peer.ID) {
					n++
					e, known := byRaw[string(id)]
					count[string(id)]++
					if !known || !vC18KeyIs(k, e.h) {
						trieOK = fmt.Sprintf("region %q stores peer %x under a key that is not sha256(peer)", r.Prefix, string(id))
					}
					if known && !e.h.hasPrefix(string(r.Prefix)) {
						matchOK = fmt.Sprintf("region %q holds peer %s… which does not match its prefix", r.Prefix, e.h.bits(len(r.Prefix)+4))
					}
				})
				if n != r.Peers.Size() {
					trieOK = fmt.Sprintf("region %q: Size()=%d but %d leaves", r.Prefix, r.Peers.Size(), n)
				}
				if len(p.peers) >= p.r && n < p.r {
					sizeOK = fmt.Sprintf("region %q holds %d peers < r=%d although %d peers were supplied", r.Prefix, n, p.r, len(p.peers))
				}
			}
			part := ""
			for _, e := range p.peers {
				if count[e.raw] != 1 {
					part = fmt.Sprintf("peer %s… is in %d regions", e.h.bits(len(p.cp)+8), count[e.raw])
				}
			}
			if len(count) != len(p.peers) {
				part = fmt.Sprintf("%d distinct peers in the regions, %d supplied", len(count), len(p.peers))
			}
			f.check(part == "" && matchOK == "", "regions-peers-partition", "regions/peers-partition", "%s%s; %s", part, matchOK, desc())
			f.check(trieOK == "", "regions-trie-keys", "regions/trie-keys", "%s; %s", trieOK, desc())
			f.check(sizeOK == "", "regions-min-size", "regions/min-size", "%s; %s", sizeOK, desc())
			if len(p.peers) < p.r {
				f.check(len(regions) == 1, "regions-min-size", "regions/min-size", "fewer peers than r must give one region; %s", desc())
			}
			// (2) prefixes: extend the covered prefix, pairwise non-overlapping, jointly covering it
			pp := ""
			var measure uint64
			const unit = 60
			for i, r := range regions {
				a := string(r.Prefix)
				if !strings.HasPrefix(a, p.cp) {
					pp = fmt.Sprintf("region prefix %q does not extend the covered prefix", a)
					continue
				}
				if d := len(a) - len(p.cp); d <= unit {
					measure += 1 << uint(unit-d)
				}
				for j, s := range regions {
					if i != j && strings.HasPrefix(string(s.Prefix), a) {
						pp = fmt.Sprintf("region prefixes %q and %q overlap", a, s.Prefix)
					}
				}
			}
			if pp == "" && measure != 1<<unit {
				pp = fmt.Sprintf("the region prefixes cover only %d/2^%d of the covered prefix", measure, unit)
			}
			f.check(pp == "", "regions-prefix-partition", "regions/prefix-partition", "%s; %s", pp, desc())
			// (3) minimal: no region can be split into two halves of >= r peers
			minimal := ""
			deep := false
			for _, r := range regions {
				var n [2]int
				a := string(r.Prefix)
				if len(a) >= 256 {
					continue
				}
				for _, e := range p.peers {
					if e.h.hasPrefix(a) {
						n[e.h.bit(len(a))]++
					}
				}
				if n[0] >= p.r && n[1] >= p.r {
					minimal = fmt.Sprintf("region %q can be split into halves of %d and %d peers, both >= r", a, n[0], n[1])
				}
				deep = deep || len(a) > len(p.cp)+1
			}
			f.check(minimal == "", "regions-minimal", "regions/minimal", "%s; %s", minimal, desc())
			// (4) order
			ord := ""
			for i := 1; i < len(regions); i++ {
				less, cmp := vC18OrderLess(string(regions[i-1].Prefix), string(regions[i].Prefix), p.order.bit)
				if cmp && !less {
					ord = fmt.Sprintf("region %q is returned before %q but is farther from order %s…", regions[i-1].Prefix, regions[i].Prefix, p.order.bits(len(regions[i].Prefix)))
				}
			}
			if len(regions) > 1 {
				f.check(ord == "", "regions-order", "regions/order", "%s; %s", ord, desc())
			}
			if len(regions) >= 2 && deep {
				c.Nontrivial(fmt.Sprintf("%d|%s", p.r, strings.Join(shape, ",")))
			}
			c.Logf("%s", desc())

			// (5) keys -> regions
			vC18CheckAssign(c, f, regions, p, "regions-from-peers")
			if c.R.Intn(8) == 0 {
				// hand-made prefix-free, not covering region list (Peers nil as in the package's own test)
				var rs []Region
				var prefixes []string
				for _, cand := range []string{"00", "010", "0111", "100", "11010", "111"} {
					if c.R.Intn(2) == 0 {
						rs = append(rs, Region{Prefix: bitstr.Key(cand)})
						prefixes = append(prefixes, cand)
					}
				}
				c.R.Shuffle(len(rs), func(i, j int) { rs[i], rs[j] = rs[j], rs[i] })
				_, keys := vC18Pools()
				q := &vC18Plan{cp: "", keys: vC18Pick(c, keys, "", 1+c.R.Intn(40), false), dupKey: c.R.Intn(4) == 0}
				if len(rs) == 0 {
					got := AssignKeysToRegions(rs, q.mhs())
					f.check(len(got) == 0, "keys-one-region", "assign/no-regions", "AssignKeysToRegions without regions returned %d regions", len(got))
				} else {
					vC18CheckAssign(c, f, rs, q, "hand-made")
				}
			}
		})
}

// vC18CheckAssign: every key in exactly one region: the one whose prefix it matches, else one
// whose prefix shares the longest common prefix with it (documented fallback).
func vC18CheckAssign(c *vh.Case, f *vC18Failer, regions []Region, p *vC18Plan, what string) {
	if len(regions) == 0 {
		return
	}
	byRaw := map[string]vC18Ent{}
	for _, e := range p.keys {
		byRaw[e.raw] = e
	}
	in := make([]Region, len(regions))
	copy(in, regions)
	out := AssignKeysToRegions(in, p.mhs())
	if !f.check(len(out) == len(regions), "keys-one-region", "assign/regions-changed", "%s: %d regions in, %d out", what, len(regions), len(out)) {
		return
	}
	held := map[string][]string{}
	entries := ""
	for i, r := range out {
		if r.Prefix != regions[i].Prefix || r.Peers != regions[i].Peers {
			f.fail("keys-one-region", "assign/regions-changed", "%s: region %d changed from %q to %q", what, i, regions[i].Prefix, r.Prefix)
		}
		if r.Keys == nil {
			entries = fmt.Sprintf("region %q has a nil Keys trie", r.Prefix)
			continue
		}
		n := 0
		vC18Walk(r.Keys, func(k bit256.Key, h mh.Multihash) {
			n++
			e, known := byRaw[string(h)]
			if !known || !vC18KeyIs(k, e.h) {
				entries = fmt.Sprintf("region %q stores multihash %x under a key that is not sha256(multihash)", r.Prefix, string(h))
			}
			held[string(h)] = append(held[string(h)], string(r.Prefix))
		})
		if n != r.Keys.Size() {
			entries = fmt.Sprintf("region %q: Keys.Size()=%d but %d leaves", r.Prefix, r.Keys.Size(), n)
		}
	}
	f.check(entries == "", "keys-trie-entries", "assign/trie-entries", "%s: %s", what, entries)
	for _, k := range p.keys {
		hs := held[k.raw]
		c.Obs("key_assignments_judged", 1)
		if !f.check(len(hs) == 1, "keys-one-region", "assign/not-exactly-one", "%s: key %s… is held by regions %v, want exactly one", what, k.h.bits(12), hs) {
			continue
		}
		match, matched, best := "", false, -1
		for _, r := range regions {
			if k.h.hasPrefix(string(r.Prefix)) {
				match, matched = string(r.Prefix), true
			}
			if cpl := vC18CplStr(string(r.Prefix), k.h); cpl > best {
				best = cpl
			}
		}
		if matched {
			f.check(hs[0] == match, "keys-one-region", "assign/wrong-region", "%s: key %s… is held by region %q, it matches region %q", what, k.h.bits(12), hs[0], match)
		} else {
			c.Obs("fallback_assignments_judged", 1)
			f.check(vC18CplStr(hs[0], k.h) == best, "keys-nearest-fallback", "assign/fallback-not-nearest",
				"%s: key %s… matches no region and is held by %q (common prefix %d), the longest common prefix with a region is %d", what, k.h.bits(12), hs[0], vC18CplStr(hs[0], k.h), best)
		}
	}
	if len(held) != len(p.keys) {
		f.fail("keys-one-region", "assign/foreign-key", "%s: regions hold %d distinct keys, %d supplied", what, len(held), len(p.keys))
	}
}

// ---- ShortestCoveredPrefix -------------------------------------------------------------------

func TestVerif_C18_scp(t *testing.T) {
	vh.Run(t, vh.Spec{Prop: "C18", Unit: "scp", Quick: 4000, Thorough: 300000, CostMs: 1,
		Rule: "ShortestCoveredPrefix vs. its documented contract. PRNG target (a pool peer's first 0-16 bits + random rest, 256 bits, or cut to 1-20 bits) and peers drawn from a pool of 65 536: (a) the true N=2..24 XOR-closest pool peers, (b) 2..24 peers that all share one CPL with the target, (c) a random subset of a wide prefix, (d) one peer whose key does / does not extend the target (target length 0..256), (e) no peer; input order shuffled. Contract: >= 2 peers with minimal CPL m < len(target): prefix = target[:m+1], peers = exactly those with CPL > m (none when all share m); 1 peer: (its full 256-bit key, itself) if it matches the target, else (\"\", none); 0 peers: (\"\", none). For (a) also the meaning of 'covered': every pool peer matching the returned prefix is among the returned peers. All peers matching a shorter-than-256-bit target completely is outside the documented contract and only counted. Non-trivial = >= 2 peers with at least two different CPLs; distinct by (len(target), sorted CPL list)",
		Clauses: []string{"scp-prefix", "scp-peers", "scp-single", "scp-empty", "scp-covered-meaning"}},
		func(c *vh.Case) {
			f := vC18NewFailer(c)
			pool, _ := vC18Pools()
			R := c.R
			q := pool[R.Intn(len(pool))]
			var rnd vC18ID
			R.Read(rnd[:])
			d := R.Intn(17)
			target := q.h.bits(d) + rnd.bits(256)[d:]
			mode := R.Intn(100)
			var peers []vC18Ent
			natural := false
			switch {
			case mode < 40: // true closest peers
				n := 2 + R.Intn(23)
				j := vC18PoolBits
				lo, hi := 0, 0
				for ; j >= 0; j-- {
					lo, hi = vC18Range(pool, target[:j])
					if hi-lo >= n {
						break
					}
				}
				cand := append([]vC18Ent(nil), pool[lo:hi]...)
				var th vC18ID
				for i := 0; i < 256; i++ {
					if target[i] == '1' {
						th[i/8] |= 1 << (7 - uint(i%8))
					}
				}
				sort.Slice(cand, func(a, b int) bool { return vC18Closer(th, cand[a].h, cand[b].h) })
				peers = cand[:n]
				natural = true
				c.Set("mode", "closest")
			case mode < 55: // all share one CPL
				cpl := R.Intn(13)
				sib := target[:cpl] + string('0'+'1'-target[cpl])
				peers = vC18Pick(c, pool, sib, 2+R.Intn(23), false)
				c.Set("mode", "same-cpl")
			case mode < 80: // random subset of a wide prefix
				peers = vC18Pick(c, pool, target[:R.Intn(d+1)], 2+R.Intn(23), R.Intn(2) == 0)
				c.Set("mode", "subset")
			case mode < 97: // single peer
				tl := []int{0, 1, 2, 8, 9, 100, 255, 256, R.Intn(257)}[R.Intn(9)]
				target = q.h.bits(tl)
				if tl > 0 && R.Intn(2) == 0 {
					i := R.Intn(tl)
					target = target[:i] + string('0'+'1'-target[i]) + target[i+1:]
				}
				peers = []vC18Ent{q}
				c.Set("mode", "single")
			default:
				c.Set("mode", "none")
			}
			if len(peers) >= 2 && R.Intn(4) == 0 {
				target = target[:1+R.Intn(20)]
			}
			R.Shuffle(len(peers), func(i, j int) { peers[i], peers[j] = peers[j], peers[i] })
			ids := make([]peer.ID, len(peers))
			for i, e := range peers {
				ids[i] = peer.ID(e.raw)
			}
			c.Set("target_len", len(target))
			c.Set("peers", len(peers))
			gotPrefix, gotPeers := ShortestCoveredPrefix(bitstr.Key(target), ids)
			c.Obs("calls", 1)
			got := map[string]int{}
			for _, id := range gotPeers {
				got[string(id)]++
			}
			switch len(peers) {
			case 0:
				f.check(gotPrefix == "" && len(gotPeers) == 0, "scp-empty", "scp/empty", "no peers: got (%q, %d peers), want (\"\", none)", gotPrefix, len(gotPeers))
			case 1:
				if peers[0].h.hasPrefix(target) {
					f.check(string(gotPrefix) == peers[0].h.bits(256) && len(gotPeers) == 1 && got[peers[0].raw] == 1, "scp-single", "scp/single-match",
						"single peer matching the %d-bit target: got (%d-bit prefix, %d peers), want (its full key, itself)", len(target), len(gotPrefix), len(gotPeers))
				} else {
					f.check(gotPrefix == "" && len(gotPeers) == 0, "scp-single", "scp/single-mismatch", "single peer not matching the %d-bit target: got (%q, %d peers), want (\"\", none)", len(target), gotPrefix, len(gotPeers))
				}
			default:
				cpls := make([]int, len(peers))
				m := len(target)
				for i, e := range peers {
					cpls[i] = vC18CplStr(target, e.h)
					if cpls[i] < m {
						m = cpls[i]
					}
				}
				sorted := append([]int(nil), cpls...)
				sort.Ints(sorted)
				c.Logf("target[:20]=%s len=%d cpls=%v -> prefix %q, %d peers", target[:min(20, len(target))], len(target), sorted, gotPrefix, len(gotPeers))
				if m == len(target) {
					c.Obs("all_peers_match_short_target(unspecified)", 1)
					return
				}
				f.check(string(gotPrefix) == target[:m+1], "scp-prefix", "scp/prefix", "target %s… (%d bits), peer CPLs %v: covered prefix %q, want target[:%d]=%q", target[:min(24, len(target))], len(target), sorted, gotPrefix, m+1, target[:m+1])
				want, bad := 0, ""
				for i, e := range peers {
					if cpls[i] > m {
						want++
						if got[e.raw] != 1 {
							bad = fmt.Sprintf("the peer with CPL %d is returned %d times", cpls[i], got[e.raw])
						}
					} else if got[e.raw] != 0 {
						bad = fmt.Sprintf("a peer with the minimal CPL %d is returned", cpls[i])
					}
				}
				if len(gotPeers) != want {
					bad = fmt.Sprintf("%d peers returned, %d have a CPL > %d", len(gotPeers), want, m)
				}
				f.check(bad == "", "scp-peers", "scp/peers", "target %s… (%d bits), peer CPLs %v: %s", target[:min(24, len(target))], len(target), sorted, bad)
				if natural && len(target) == 256 {
					lo, hi := vC18Range(pool, string(gotPrefix))
					missing := 0
					for _, e := range pool[lo:hi] {
						if got[e.raw] == 0 {
							missing++
						}
					}
					f.check(missing == 0 && len(gotPeers) == hi-lo, "scp-covered-meaning", "scp/not-covered", "the %d closest peers of the swarm were supplied; %d swarm peers match the returned prefix %q but %d were returned (%d missing)",
						len(peers), hi-lo, gotPrefix, len(gotPeers), missing)
				}
				if sorted[0] != sorted[len(sorted)-1] {
					c.Nontrivial(fmt.Sprintf("%d|%v", len(target), sorted))
				}
			}
		})
}
