//go:build verif

package keyspace

// C18 part 2 — the prefix-set operations used for scheduling vs. their set-theoretic
// definitions, evaluated over the leaf space {0,1}^L by this file's own code (bit masks over
// the 2^L leaves and plain strings); exhaustive over all prefix-free sets of bounded depth.
//
// Every set is presented to the code under test in two trie shapes:
//   canonical  built with Add only (a node is internal iff it holds >= 2 keys);
//   pruned     what PruneSubtrie leaves behind: every maximal uncovered prefix is first added
//              and then pruned again, so every proper ancestor of a key stays an internal node
//              with empty-leaf branches (the provider's schedule / activeReprovides tries get
//              such shapes whenever a prune is not followed by an Add at the same place).
// A violation seen only on the pruned shape carries the suffix "@pruned-shape".

import (
	"fmt"
	"sort"
	"strings"
	"testing"

	"github.com/ipfs/go-libdht/kad/key/bit256"
	"github.com/ipfs/go-libdht/kad/key/bitstr"
	"github.com/ipfs/go-libdht/kad/trie"

	"github.com/libp2p/go-libp2p-kad-dht/internal/verif/vh"
)

// ---- enumeration of prefix-free sets ---------------------------------------------------------

// vC18SetCount(d) = number of prefix-free sets of bit strings of length <= d: 2, 5, 26, 677, 458330.
func vC18SetCount(d int) int {
	n := 2
	for i := 0; i < d; i++ {
		n = n*n + 1
	}
	return n
}

// vC18SetAt returns the idx-th prefix-free set of strings extending prefix by at most d bits
// (sorted lexicographically): 0 = {}, 1 = {prefix}, the others = A u B, (A,B) != ({},{}).
func vC18SetAt(d, idx int, prefix string) []string {
	switch {
	case idx == 0:
		return nil
	case idx == 1:
		return []string{prefix}
	}
	a := vC18SetCount(d - 1)
	j := idx - 1
	return append(vC18SetAt(d-1, j/a, prefix+"0"), vC18SetAt(d-1, j%a, prefix+"1")...)
}

// ---- definitions over the leaf space ---------------------------------------------------------

func vC18Val(p string) uint64 {
	var v uint64
	for i := 0; i < len(p); i++ {
		v = v<<1 | uint64(p[i]-'0')
	}
	return v
}

// vC18Mask = the set of leaves of {0,1}^L below p, as a bit mask (L <= 6, len(p) <= L).
func vC18Mask(p string, L int) uint64 {
	n := uint(L - len(p))
	cnt := uint64(1) << n
	if cnt == 64 {
		return ^uint64(0)
	}
	return ((uint64(1) << cnt) - 1) << (vC18Val(p) << n)
}

func vC18Cover(S []string, L int) uint64 {
	var m uint64
	for _, s := range S {
		m |= vC18Mask(s, L)
	}
	return m
}

// vC18MaxWithin lists, lexicographically, the maximal prefixes p extending target whose
// leaves all lie in `in`.
func vC18MaxWithin(target string, in uint64, L int) []string {
	if vC18Mask(target, L)&^in == 0 {
		return []string{target}
	}
	if len(target) >= L || vC18Mask(target, L)&in == 0 {
		return nil
	}
	return append(vC18MaxWithin(target+"0", in, L), vC18MaxWithin(target+"1", in, L)...)
}

// vC18SortByOrder sorts pairwise incomparable prefixes by XOR distance to order (a bit string
// of length L): at the first differing bit, the one agreeing with order comes first.
func vC18SortByOrder(ps []string, order string) []string {
	out := append([]string(nil), ps...)
	sort.SliceStable(out, func(i, j int) bool {
		less, _ := vC18OrderLess(out[i], out[j], func(k int) byte { return order[k] - '0' })
		return less
	})
	return out
}

func vC18Comparable(a, b string) bool { return strings.HasPrefix(a, b) || strings.HasPrefix(b, a) }

func vC18EqStr(a, b []string) bool {
	if len(a) != len(b) {
		return false
	}
	for i := range a {
		if a[i] != b[i] {
			return false
		}
	}
	return true
}

func vC18Sorted(a []string) []string {
	out := append([]string(nil), a...)
	sort.Strings(out)
	return out
}

// ---- tries -----------------------------------------------------------------------------------

type vC18T = trie.Trie[bitstr.Key, int]

func vC18Data(s string) int { return len(s)<<8 | int(vC18Val(s)) + 1<<16 }

func vC18TrieKeys(t *vC18T) []string {
	var out []string
	vC18Walk(t, func(k bitstr.Key, _ int) { out = append(out, string(k)) })
	sort.Strings(out)
	return out
}

// vC18Build builds the trie of S in the canonical or in the pruned shape.
func vC18Build(S []string, pruned bool, L int) *vC18T {
	t := trie.New[bitstr.Key, int]()
	for _, s := range S {
		t.Add(bitstr.Key(s), vC18Data(s))
	}
	if pruned && len(S) > 0 {
		gaps := vC18MaxWithin("", (vC18Mask("", L))&^vC18Cover(S, L), L)
		for _, g := range gaps {
			t.Add(bitstr.Key(g), -1)
		}
		for _, g := range gaps {
			PruneSubtrie(t, bitstr.Key(g))
		}
	}
	return t
}

func vC18AllStrings(maxLen int) []string {
	out := []string{""}
	for start := 0; len(out[start]) < maxLen; start++ {
		out = append(out, out[start]+"0", out[start]+"1")
	}
	return out
}

func vC18OrderKey(pattern string, tail vC18ID) bit256.Key {
	k := tail
	for i := 0; i < len(pattern); i++ {
		m := byte(1) << (7 - uint(i%8))
		k[i/8] &^= m
		if pattern[i] == '1' {
			k[i/8] |= m
		}
	}
	return bit256.NewKeyFromArray(k)
}

// ---- the checks ------------------------------------------------------------------------------

type vC18PX struct {
	c      *vh.Case
	f      *vC18Failer
	L      int
	all    []string // all bit strings of length <= L
	tail   vC18ID
	shapes []string
}

func (x *vC18PX) sig(base string, shape int) string {
	if shape == 1 {
		return base + "@pruned-shape"
	}
	return base
}

func vC18BK(ks []bitstr.Key) []string {
	out := make([]string, len(ks))
	for i, k := range ks {
		out[i] = string(k)
	}
	return out
}

// perSet runs every single-set operation on S (both shapes) for all targets / keys and the given orders.
func (x *vC18PX) perSet(S []string, orders []string) {
	c, f, L := x.c, x.f, x.L
	tries := [2]*vC18T{vC18Build(S, false, L), vC18Build(S, true, L)}
	for si, t := range tries {
		if got := vC18TrieKeys(t); !vC18EqStr(got, S) {
			f.fail("shape-build", x.sig("build/keys", si), "building %v in the %s shape (Add, then Add+PruneSubtrie of every gap) leaves the keys %v", S, x.shapes[si], got)
			return
		}
	}
	full := vC18Mask("", L)
	cover := vC18Cover(S, L)
	inS := map[string]bool{}
	for _, s := range S {
		inS[s] = true
	}
	c.Obs("sets", 1)

	// KeyspaceCovered, CoalesceTrie
	expCoal := vC18MaxWithin("", cover, L)
	if cover == 0 {
		expCoal = nil
	}
	for si, t := range tries {
		ok := f.check(KeyspaceCovered(t) == (cover == full), "covered", x.sig("covered", si), "KeyspaceCovered(%v, %s shape) = %v, the set covers %d of %d leaves", S, x.shapes[si], !(cover == full), vC18Pop64(cover), 1<<L)
		cp := t.Copy()
		CoalesceTrie(cp)
		got := vC18TrieKeys(cp)
		ok = f.check(vC18EqStr(got, expCoal), "coalesce", x.sig("coalesce", si), "CoalesceTrie(%v, %s shape) = %v, closure under sibling merge is %v", S, x.shapes[si], got, expCoal) && ok
		c.Obs("evaluations", 2)
		if !ok {
			break
		}
	}

	for _, k := range x.all {
		// FindPrefixOfKey
		expP, expOK := "", false
		for _, s := range S {
			if strings.HasPrefix(k, s) {
				expP, expOK = s, true
			}
		}
		// FindSubtrie, PruneSubtrie
		var under, rest []string
		for _, s := range S {
			if strings.HasPrefix(s, k) {
				under = append(under, s)
			} else {
				rest = append(rest, s)
			}
		}
		for si, t := range tries {
			gp, gok := FindPrefixOfKey(t, bitstr.Key(k))
			ok := f.check(gok == expOK && (!gok || string(gp) == expP), "find-prefix", x.sig("find-prefix", si), "FindPrefixOfKey(%v (%s shape), %q) = (%q,%v), want (%q,%v)", S, x.shapes[si], k, gp, gok, expP, expOK)
			if !gok && gp != "" {
				c.Obs("find_prefix_miss_returns_nonzero_key(doc:zero key)", 1)
			}
			sub, sok := FindSubtrie(t, bitstr.Key(k))
			var gsub []string
			if sok {
				gsub = vC18TrieKeys(sub)
			}
			ok = f.check(sok == (len(under) > 0) && vC18EqStr(gsub, under), "find-subtrie", x.sig("find-subtrie", si), "FindSubtrie(%v (%s shape), %q) = (%v,%v), the keys below %q are %v", S, x.shapes[si], k, gsub, sok, k, under) && ok
			cp := t.Copy()
			PruneSubtrie(cp, bitstr.Key(k))
			got := vC18TrieKeys(cp)
			ok = f.check(vC18EqStr(got, rest) && cp.Size() == len(rest), "prune", x.sig("prune", si), "PruneSubtrie(%v (%s shape), %q) leaves %v (Size %d), want %v", S, x.shapes[si], k, got, cp.Size(), rest) && ok
			if !expOK {
				// the provider's idiom: if no key is a prefix of k { PruneSubtrie(t,k); t.Add(k) }
				cp.Add(bitstr.Key(k), vC18Data(k))
				got := vC18TrieKeys(cp)
				want := vC18Sorted(append(append([]string(nil), rest...), k))
				ok = f.check(vC18EqStr(got, want), "prune-then-add", x.sig("prune-then-add", si), "PruneSubtrie(%v (%s shape), %q) then Add(%q) gives %v, want %v", S, x.shapes[si], k, k, got, want) && ok
				c.Obs("evaluations", 1)
			}
			c.Obs("evaluations", 3)
			if !ok {
				break
			}
		}
	}

	for _, o := range orders {
		ok256 := vC18OrderKey(o, x.tail)
		sorted := vC18SortByOrder(S, o)
		for si, t := range tries {
			got := vC18BK(AllKeys(t, ok256))
			c.Obs("evaluations", 1)
			if !f.check(vC18EqStr(got, sorted), "iter-order", x.sig("iter-order", si), "AllKeys(%v (%s shape), order %s) = %v, want %v", S, x.shapes[si], o, got, sorted) {
				break
			}
		}
		// TrieGaps
		for _, target := range x.all {
			exp := vC18SortByOrder(vC18MaxWithin(target, full&^cover, L), o)
			for si, t := range tries {
				got := vC18BK(TrieGaps(t, bitstr.Key(target), ok256))
				c.Obs("evaluations", 1)
				c.Clause("gaps")
				if vC18EqStr(got, exp) {
					continue
				}
				base := "gaps/order"
				if !vC18EqStr(vC18Sorted(got), vC18Sorted(exp)) {
					base = "gaps/wrong-set"
					for _, g := range got {
						if !strings.HasPrefix(g, target) {
							base = "gaps/outside-target"
						}
					}
				}
				sig := x.sig(base, si)
				if base == "gaps/outside-target" {
					// one input class whatever the shape: on the pruned shape it only reaches more
					// inputs (a single key no longer takes TrieGaps' root-leaf shortcut)
					sig = base
				}
				f.fail("gaps", sig, "TrieGaps(%v (%s shape), target %q, order %s) = %v, the maximal sub-prefixes of the target disjoint from the set are %v", S, x.shapes[si], target, o, got, exp)
				break
			}
		}
		// NextNonEmptyLeaf
		for _, k := range x.all {
			member := inS[k]
			if !member {
				cmp := k == "" && len(S) > 0
				for _, s := range S {
					cmp = cmp || vC18Comparable(k, s)
				}
				if cmp {
					continue // "the leaf following k" has no unambiguous meaning
				}
			}
			exp := ""
			has := len(sorted) > 0
			if has {
				exp = sorted[0]
				for i, s := range sorted {
					if member {
						if s == k {
							exp = sorted[(i+1)%len(sorted)]
							break
						}
					} else if less, _ := vC18OrderLess(k, s, func(j int) byte { return o[j] - '0' }); less {
						exp = s
						break
					}
				}
			}
			for si, t := range tries {
				e := NextNonEmptyLeaf(t, bitstr.Key(k), ok256)
				c.Obs("evaluations", 1)
				okk := (e == nil) == !has && (e == nil || (string(e.Key) == exp && e.Data == vC18Data(exp)))
				cl := "next-leaf-member"
				if !member {
					cl = "next-leaf-absent"
				}
				if !f.check(okk, cl, x.sig(cl, si), "NextNonEmptyLeaf(%v (%s shape), k=%q, order %s) = %s, the keys in order are %v, want %q", S, x.shapes[si], k, o, vC18EntryStr(e), sorted, exp) {
					break
				}
			}
		}
	}
}

func vC18EntryStr(e *trie.Entry[bitstr.Key, int]) string {
	if e == nil {
		return "nil"
	}
	return fmt.Sprintf("%q(data %d)", e.Key, e.Data)
}

func vC18Pop64(x uint64) int {
	n := 0
	for ; x != 0; x &= x - 1 {
		n++
	}
	return n
}

// pair checks SubtractTrie(S0, S1) and SubtractTrie(S0, CoalesceTrie(S1)) (the provider's use).
func (x *vC18PX) pair(S0, S1 []string, t0, t1 [2]*vC18T) {
	c, f, L := x.c, x.f, x.L
	var exp []string
	for _, k := range S0 {
		cov := false
		for _, s := range S1 {
			cov = cov || strings.HasPrefix(k, s)
		}
		if !cov {
			exp = append(exp, k)
		}
	}
	coal := vC18MaxWithin("", vC18Cover(S1, L), L)
	if len(S1) == 0 {
		coal = nil
	}
	var expC []string
	for _, k := range S0 {
		cov := false
		for _, s := range coal {
			cov = cov || strings.HasPrefix(k, s)
		}
		if !cov {
			expC = append(expC, k)
		}
	}
	for si := 0; si < 2; si++ {
		res := SubtractTrie(t0[si], t1[si])
		got := vC18TrieKeys(res)
		dataOK := true
		vC18Walk(res, func(k bitstr.Key, d int) { dataOK = dataOK && d == vC18Data(string(k)) })
		ok := f.check(vC18EqStr(got, exp) && dataOK && res.Size() == len(exp), "subtract", x.sig("subtract", si), "SubtractTrie(%v, %v) (%s shapes) = %v (data kept: %v), want %v", S0, S1, x.shapes[si], got, dataOK, exp)
		cp := t1[si].Copy()
		CoalesceTrie(cp)
		res = SubtractTrie(t0[si], cp)
		got = vC18TrieKeys(res)
		ok = f.check(vC18EqStr(got, expC), "subtract-coalesced", x.sig("subtract-coalesced", si), "SubtractTrie(%v, CoalesceTrie(%v)=%v) (%s shapes) = %v, want %v", S0, S1, vC18TrieKeys(cp), x.shapes[si], got, expC) && ok
		c.Obs("evaluations", 2)
		if !ok {
			break
		}
	}
}

func vC18BothShapes(S []string, L int) [2]*vC18T {
	return [2]*vC18T{vC18Build(S, false, L), vC18Build(S, true, L)}
}

const vC18QuickCases = 64

// TestVerif_C18_prefixops_exhaustive: all prefix-free sets of depth <= 3 (quick) / <= 4 (thorough).
func TestVerif_C18_prefixops_exhaustive(t *testing.T) {
	vh.Run(t, vh.Spec{Prop: "C18", Unit: "prefixops_exhaustive", Quick: vC18QuickCases, Thorough: 4096, CostMs: 140, Exhaustive: true,
		Rule: "ALL 677 prefix-free sets of bit strings of length <= 3 (set i in case i mod 64), each as a canonical and as a pruned-shape trie, leaf space {0,1}^4: x all 31 targets/keys of length <= 4 x all 16 order patterns (bit256 order keys) for TrieGaps, NextNonEmptyLeaf (k a member, or comparable with no member), AllKeys; x all targets for FindPrefixOfKey, FindSubtrie, PruneSubtrie (+ the provider's prune-then-Add idiom); KeyspaceCovered, CoalesceTrie; SubtractTrie and SubtractTrie(.,CoalesceTrie(.)) for ALL 677 x 677 ordered pairs. Thorough adds ALL 458 330 sets of length <= 4 (set i in case i mod 4096), leaf space {0,1}^5, 63 targets, 4 order patterns per set (0..0, 1..1, 2 PRNG), subtraction against the 26 sets of length <= 2 in both directions and 24 PRNG partners. Definitions are evaluated on leaf bit masks by the monitor. Every case is non-trivial (counted per case index)",
		Clauses: []string{"gaps", "subtract", "subtract-coalesced", "coalesce", "covered", "next-leaf-member", "next-leaf-absent", "prune", "prune-then-add", "find-prefix", "find-subtrie", "iter-order"}},
		func(c *vh.Case) {
			f := vC18NewFailer(c)
			var tail vC18ID
			c.R.Read(tail[:])
			shapes := []string{"canonical", "pruned"}
			if c.Idx < vC18QuickCases {
				const D, L = 3, 4
				x := &vC18PX{c: c, f: f, L: L, all: vC18AllStrings(L), tail: tail, shapes: shapes}
				orders := vC18AllStrings(L)[(1<<L)-1:] // the 2^L strings of length L
				n := vC18SetCount(D)
				partners := make([][]string, n)
				ptries := make([][2]*vC18T, n)
				for j := 0; j < n; j++ {
					partners[j] = vC18SetAt(D, j, "")
					ptries[j] = vC18BothShapes(partners[j], L)
				}
				for i := c.Idx; i < n; i += vC18QuickCases {
					x.perSet(partners[i], orders)
					for j := 0; j < n; j++ {
						x.pair(partners[i], partners[j], ptries[i], ptries[j])
					}
					c.Obs("subtract_pairs", n)
				}
			}
			if c.Tier == "thorough" {
				const D, L = 4, 5
				x := &vC18PX{c: c, f: f, L: L, all: vC18AllStrings(L), tail: tail, shapes: shapes}
				pats := vC18AllStrings(L)[(1<<L)-1:]
				n := vC18SetCount(D)
				small := vC18SetCount(2)
				sp := make([][]string, small)
				st := make([][2]*vC18T, small)
				for j := 0; j < small; j++ {
					sp[j] = vC18SetAt(2, j, "")
					st[j] = vC18BothShapes(sp[j], L)
				}
				for i := c.Idx; i < n; i += c.Spec.Thorough {
					S := vC18SetAt(D, i, "")
					x.perSet(S, []string{pats[0], pats[len(pats)-1], pats[c.R.Intn(len(pats))], pats[c.R.Intn(len(pats))]})
					ts := vC18BothShapes(S, L)
					for j := 0; j < small; j++ {
						x.pair(S, sp[j], ts, st[j])
						x.pair(sp[j], S, st[j], ts)
					}
					for j := 0; j < 24; j++ {
						P := vC18SetAt(D, c.R.Intn(n), "")
						x.pair(S, P, ts, vC18BothShapes(P, L))
					}
					c.Obs("subtract_pairs", 2*small+24)
				}
			}
			c.Set("first_set_index", c.Idx)
			c.Nontrivial(fmt.Sprintf("case-%d", c.Idx))
		})
}

// ---- histories: the shapes the provider really produces ---------------------------------------

// TestVerif_C18_prefixops_history mutates one trie the way the provider does (prune + add of a
// covering prefix, prune without add, remove, coalesce) and re-checks the read operations
// against the set model after every step, so that the operations are also judged on trie
// shapes produced by arbitrary interleavings of the mutators (depth <= 5).
func TestVerif_C18_prefixops_history(t *testing.T) {
	vh.Run(t, vh.Spec{Prop: "C18", Unit: "prefixops_history", Quick: 1500, Thorough: 100000, CostMs: 1,
		Rule: "PRNG histories of 6-30 mutations on one bitstr trie, set model in lock-step: schedule(p) = the provider's idiom (skip if a key is a prefix of p, else PruneSubtrie(p)+Add(p)), PruneSubtrie(p) alone, Remove(member), CoalesceTrie; prefixes of length 0-5; after every step the key set is compared and TrieGaps (2 targets), NextNonEmptyLeaf (member and absent key), FindPrefixOfKey, FindSubtrie, KeyspaceCovered, SubtractTrie against a second PRNG set and AllKeys are judged against the definitions over {0,1}^6 with a PRNG order. Non-trivial = at least one prune removed keys without collapsing the trie and at least 3 keys were held at some point; distinct by the sequence of key sets",
		Clauses: []string{"model-keys", "gaps", "next-leaf-member", "find-prefix", "find-subtrie", "covered", "subtract", "iter-order"}},
		func(c *vh.Case) {
			f := vC18NewFailer(c)
			const L = 6
			R := c.R
			var tail vC18ID
			R.Read(tail[:])
			all := vC18AllStrings(L - 1)
			full := vC18Mask("", L)
			randP := func() string {
				l := []int{0, 1, 1, 2, 2, 2, 3, 3, 3, 3, 4, 4, 4, 5, 5}[R.Intn(15)]
				return all[(1<<l)-1+R.Intn(1<<l)]
			}
			tr := trie.New[bitstr.Key, int]()
			var S []string
			steps := 6 + R.Intn(25)
			var states []string
			prunedSome, big := false, false
			for i := 0; i < steps; i++ {
				switch x := R.Intn(100); {
				case x < 55:
					p := randP()
					covered := false
					for _, s := range S {
						covered = covered || strings.HasPrefix(p, s)
					}
					if _, ok := FindPrefixOfKey(tr, bitstr.Key(p)); !ok {
						PruneSubtrie(tr, bitstr.Key(p))
						tr.Add(bitstr.Key(p), vC18Data(p))
					}
					if !covered {
						var keep []string
						for _, s := range S {
							if !strings.HasPrefix(s, p) {
								keep = append(keep, s)
							}
						}
						S = vC18Sorted(append(keep, p))
					}
					c.Logf("schedule(%q)", p)
				case x < 80:
					p := randP()
					var keep []string
					for _, s := range S {
						if !strings.HasPrefix(s, p) {
							keep = append(keep, s)
						}
					}
					if len(keep) < len(S) && len(keep) > 0 {
						prunedSome = true
					}
					S = keep
					PruneSubtrie(tr, bitstr.Key(p))
					c.Logf("PruneSubtrie(%q)", p)
				case x < 92:
					if len(S) == 0 {
						continue
					}
					j := R.Intn(len(S))
					tr.Remove(bitstr.Key(S[j]))
					c.Logf("Remove(%q)", S[j])
					S = append(append([]string(nil), S[:j]...), S[j+1:]...)
				default:
					CoalesceTrie(tr)
					if len(S) > 0 {
						S = vC18MaxWithin("", vC18Cover(S, L), L)
					}
					// coalescing discards the data of merged keys: refresh the model's view of data
					c.Logf("CoalesceTrie()")
				}
				c.Obs("mutations", 1)
				big = big || len(S) >= 3
				states = append(states, strings.Join(S, ","))
				got := vC18TrieKeys(tr)
				if !f.check(vC18EqStr(got, S) && tr.Size() == len(S), "model-keys", "keys", "after step %d the trie holds %v (Size %d), the set model %v", i, got, tr.Size(), S) {
					break
				}
				cover := vC18Cover(S, L)
				pat := all[(1<<(L-1))-1+R.Intn(1<<(L-1))] + "0"
				ord := vC18OrderKey(pat, tail)
				sorted := vC18SortByOrder(S, pat)
				f.check(vC18EqStr(vC18BK(AllKeys(tr, ord)), sorted), "iter-order", "iter-order", "AllKeys(%v, order %s) = %v, want %v", S, pat, AllKeys(tr, ord), sorted)
				f.check(KeyspaceCovered(tr) == (cover == full), "covered", "covered", "KeyspaceCovered(%v) = %v", S, cover != full)
				for _, target := range []string{randP(), randP()} {
					exp := vC18SortByOrder(vC18MaxWithin(target, full&^cover, L), pat)
					got := vC18BK(TrieGaps(tr, bitstr.Key(target), ord))
					c.Clause("gaps")
					if !vC18EqStr(got, exp) {
						base := "gaps/order"
						if !vC18EqStr(vC18Sorted(got), vC18Sorted(exp)) {
							base = "gaps/wrong-set"
							for _, g := range got {
								if !strings.HasPrefix(g, target) {
									base = "gaps/outside-target"
								}
							}
						}
						f.fail("gaps", base, "TrieGaps(%v, target %q, order %s) = %v, want %v", S, target, pat, got, exp)
					}
					expP, expOK := "", false
					var under []string
					for _, s := range S {
						if strings.HasPrefix(target, s) {
							expP, expOK = s, true
						}
						if strings.HasPrefix(s, target) {
							under = append(under, s)
						}
					}
					gp, gok := FindPrefixOfKey(tr, bitstr.Key(target))
					f.check(gok == expOK && (!gok || string(gp) == expP), "find-prefix", "find-prefix", "FindPrefixOfKey(%v, %q) = (%q,%v), want (%q,%v)", S, target, gp, gok, expP, expOK)
					sub, sok := FindSubtrie(tr, bitstr.Key(target))
					var gsub []string
					if sok {
						gsub = vC18TrieKeys(sub)
					}
					f.check(sok == (len(under) > 0) && vC18EqStr(gsub, under), "find-subtrie", "find-subtrie", "FindSubtrie(%v, %q) = (%v,%v), want %v", S, target, gsub, sok, under)
					// absent key comparable with no member
					cmp := target == "" && len(S) > 0
					for _, s := range S {
						cmp = cmp || vC18Comparable(target, s)
					}
					if !cmp {
						exp := ""
						if len(sorted) > 0 {
							exp = sorted[0]
							for _, s := range sorted {
								if less, _ := vC18OrderLess(target, s, func(j int) byte { return pat[j] - '0' }); less {
									exp = s
									break
								}
							}
						}
						e := NextNonEmptyLeaf(tr, bitstr.Key(target), ord)
						f.check((e == nil) == (len(sorted) == 0) && (e == nil || string(e.Key) == exp), "next-leaf-absent", "next-leaf-absent", "NextNonEmptyLeaf(%v, absent k=%q, order %s) = %s, keys in order %v, want %q", S, target, pat, vC18EntryStr(e), sorted, exp)
					}
				}
				if len(sorted) > 0 {
					j := R.Intn(len(sorted))
					e := NextNonEmptyLeaf(tr, bitstr.Key(sorted[j]), ord)
					exp := sorted[(j+1)%len(sorted)]
					f.check(e != nil && string(e.Key) == exp, "next-leaf-member", "next-leaf-member", "NextNonEmptyLeaf(%v, k=%q, order %s) = %s, keys in order %v, want %q", S, sorted[j], pat, vC18EntryStr(e), sorted, exp)
				}
				// subtraction against a second set (canonical), both directions
				var P []string
				for j := 0; j < 1+R.Intn(4); j++ {
					p := randP()
					ok := true
					for _, s := range P {
						ok = ok && !vC18Comparable(p, s)
					}
					if ok {
						P = append(P, p)
					}
				}
				P = vC18Sorted(P)
				pt := vC18Build(P, false, L)
				sub := func(A, B []string) []string {
					var out []string
					for _, k := range A {
						cov := false
						for _, s := range B {
							cov = cov || strings.HasPrefix(k, s)
						}
						if !cov {
							out = append(out, k)
						}
					}
					return out
				}
				f.check(vC18EqStr(vC18TrieKeys(SubtractTrie(tr, pt)), sub(S, P)), "subtract", "subtract", "SubtractTrie(%v, %v) = %v, want %v", S, P, vC18TrieKeys(SubtractTrie(tr, pt)), sub(S, P))
				f.check(vC18EqStr(vC18TrieKeys(SubtractTrie(pt, tr)), sub(P, S)), "subtract", "subtract", "SubtractTrie(%v, %v) = %v, want %v", P, S, vC18TrieKeys(SubtractTrie(pt, tr)), sub(P, S))
				c.Obs("states_judged", 1)
			}
			c.Set("steps", steps)
			if prunedSome && big {
				c.Nontrivial(fmt.Sprintf("%x", vC18Hash64(strings.Join(states, ";"))))
			}
		})
}

func vC18Hash64(s string) uint64 {
	h := uint64(1469598103934665603)
	for i := 0; i < len(s); i++ {
		h = (h ^ uint64(s[i])) * 1099511628211
	}
	return h
}
