//go:build verif

package buffered

// C17 (5) — the buffered wrapper applies queued start/stop operations with the same final effect
// as applying them one by one.
//
// A recording inner provider (set semantics of the keystore: StartProviding adds, StopProviding
// removes) stands behind the real wrapper and its real dsqueue; a PRNG history of API calls is
// pushed through the wrapper in a synctest bubble (slow inner calls let batches of every size up
// to the configured one form; optionally the wrapper is closed and reopened on the same datastore
// in the middle of the history). After draining:
//   membership   the inner provider's key set equals the one obtained by applying the history one by one
//   hand-over    for ProvideOnce / StartProviding / forced StartProviding: the set of keys handed to
//                the inner provider equals the set of keys of that kind in the history (nothing lost,
//                nothing invented); StopProviding only ever for keys the history stops
//   drained      nothing is left in the queue, the worker is idle

import (
	"fmt"
	"hash/fnv"
	"sort"
	"strings"
	"sync"
	"testing"
	"testing/synctest"
	"time"

	ds "github.com/ipfs/go-datastore"
	dssync "github.com/ipfs/go-datastore/sync"
	mh "github.com/multiformats/go-multihash"

	"github.com/libp2p/go-libp2p-kad-dht/internal/verif/vh"
	"github.com/libp2p/go-libp2p-kad-dht/provider/internal"
)

const (
	vC17Once = iota
	vC17Start
	vC17Force
	vC17Stop
)

var vC17Names = []string{"ProvideOnce", "StartProviding", "StartProviding(force)", "StopProviding"}

type vC17Inner struct {
	mu       sync.Mutex
	delay    time.Duration
	members  map[string]bool
	handed   [4]map[string]int
	calls    int
	maxBatch int
	immed    map[string]int // keys the inner provider would provide immediately (new or forced or once)
	log      []string
}

var _ internal.Provider = (*vC17Inner)(nil)

func vC17NewInner(delay time.Duration) *vC17Inner {
	in := &vC17Inner{delay: delay, members: map[string]bool{}, immed: map[string]int{}}
	for i := range in.handed {
		in.handed[i] = map[string]int{}
	}
	return in
}

func (in *vC17Inner) apply(kind int, keys []mh.Multihash) error {
	if in.delay > 0 {
		time.Sleep(in.delay)
	}
	in.mu.Lock()
	defer in.mu.Unlock()
	in.calls++
	if len(keys) > in.maxBatch {
		in.maxBatch = len(keys)
	}
	for _, k := range keys {
		s := string(k)
		in.handed[kind][s]++
		switch kind {
		case vC17Once:
			in.immed[s]++
		case vC17Start:
			if !in.members[s] {
				in.immed[s]++
			}
			in.members[s] = true
		case vC17Force:
			in.immed[s]++
			in.members[s] = true
		case vC17Stop:
			delete(in.members, s)
		}
	}
	if len(in.log) < 60 {
		in.log = append(in.log, fmt.Sprintf("inner.%s(%d keys)", vC17Names[kind], len(keys)))
	}
	return nil
}

func (in *vC17Inner) ProvideOnce(keys ...mh.Multihash) error { return in.apply(vC17Once, keys) }
func (in *vC17Inner) StartProviding(force bool, keys ...mh.Multihash) error {
	if force {
		return in.apply(vC17Force, keys)
	}
	return in.apply(vC17Start, keys)
}
func (in *vC17Inner) StopProviding(keys ...mh.Multihash) error { return in.apply(vC17Stop, keys) }
func (in *vC17Inner) Clear() int                               { return 0 }
func (in *vC17Inner) RefreshSchedule() error                   { return nil }
func (in *vC17Inner) Close() error                             { return nil }

type vC17Op struct {
	kind int
	keys []int
}

func vC17SetOf(m map[string]int) []string {
	out := make([]string, 0, len(m))
	for k := range m {
		out = append(out, k)
	}
	sort.Strings(out)
	return out
}

func vC17Diff(a, b []string, name func(string) string) string {
	in := func(x string, l []string) bool {
		i := sort.SearchStrings(l, x)
		return i < len(l) && l[i] == x
	}
	var only []string
	for _, x := range a {
		if !in(x, b) {
			only = append(only, "-"+name(x))
		}
	}
	for _, x := range b {
		if !in(x, a) {
			only = append(only, "+"+name(x))
		}
	}
	if len(only) > 12 {
		only = append(only[:12], "…")
	}
	return strings.Join(only, " ")
}

func TestVerif_C17_buffered(t *testing.T) {
	vh.Run(t, vh.Spec{Prop: "C17", Unit: "buffered", Quick: 400, Thorough: 12000, CostMs: 14,
		Rule:    "PRNG history of 5-3000 ProvideOnce / StartProviding(force or not) / StopProviding calls of 1-8 keys over a universe of 2-40 keys (so that operations on the same key meet in one batch), pushed through the real wrapper + dsqueue with batch size in {1,2,3,7,16,100,1024}, idle write time 20 ms..1 min, pauses after every 4th / 30th / 1000th call, inner calls taking 0-60 virtual ms; every 4th history closes and reopens the wrapper on the same datastore mid-way; after draining the inner provider's key set and the per-kind hand-over sets are compared with the one-by-one application; non-trivial = some batch carried >= 2 operations on one key including a stop, or a restart happened with operations still queued; distinct by (history hash)",
		Clauses: []string{"membership", "hand-over", "drained"}},
		func(c *vh.Case) {
			r := c.R
			universe := 2 + r.Intn(39)
			keys := make([]mh.Multihash, universe)
			short := map[string]string{}
			for i := range keys {
				h, _ := mh.Sum([]byte(fmt.Sprintf("vC17-buf-%d-%d", c.Idx, i)), mh.SHA2_256, -1)
				keys[i] = h
				short[string(h)] = fmt.Sprintf("k%d", i)
			}
			nOps := 5 + r.Intn(60)
			if r.Intn(4) == 0 {
				nOps = 200 + r.Intn(2800)
			}
			batch := []int{1, 2, 3, 7, 16, 100, 1024}[r.Intn(7)]
			idle := []time.Duration{20 * time.Millisecond, 200 * time.Millisecond, time.Second, time.Minute}[r.Intn(4)]
			delay := time.Duration(r.Intn(6)) * time.Millisecond
			if r.Intn(3) == 0 {
				delay = time.Duration(r.Intn(60)) * time.Millisecond
			}
			pauseEvery := []int{4, 30, 1000}[r.Intn(3)] // a pause of the caller after every n-th call on average
			restartAt := -1
			if c.Idx%4 == 3 {
				if nOps > 600 {
					// a reopened dsqueue reads its head with one ordered query per item: quadratic in real time
					nOps = 200 + r.Intn(400)
				}
				restartAt = 1 + r.Intn(nOps)
			}
			c.Set("universe", universe)
			c.Set("ops", nOps)
			c.Set("batch_size", batch)
			c.Set("idle_write", idle.String())
			c.Set("inner_delay", delay.String())
			c.Set("pause_every", pauseEvery)
			c.Set("restart_at", restartAt)

			// history and its one-by-one application
			var hist []vC17Op
			model := map[string]bool{}
			var want [4]map[string]int
			for i := range want {
				want[i] = map[string]int{}
			}
			seqImmed := map[string]int{}
			var hsb strings.Builder
			for i := 0; i < nOps; i++ {
				op := vC17Op{kind: r.Intn(4)}
				if r.Intn(3) == 0 {
					op.kind = vC17Stop
				}
				n := 1
				if r.Intn(3) == 0 {
					n += r.Intn(8)
				}
				for j := 0; j < n; j++ {
					op.keys = append(op.keys, r.Intn(universe))
				}
				hist = append(hist, op)
				fmt.Fprintf(&hsb, "%d%v;", op.kind, op.keys)
				for _, ki := range op.keys {
					s := string(keys[ki])
					want[op.kind][s]++
					switch op.kind {
					case vC17Once:
						seqImmed[s]++
					case vC17Start:
						if !model[s] {
							seqImmed[s]++
						}
						model[s] = true
					case vC17Force:
						seqImmed[s]++
						model[s] = true
					case vC17Stop:
						delete(model, s)
					}
				}
				if i < 40 {
					c.Logf("%s%v", vC17Names[op.kind], op.keys)
				}
			}

			wall0 := time.Now() // real time, observation only
			inner := vC17NewInner(delay)
			leftInQueue, queuedAtRestart := -1, 0
			c.Bubble(t, 12*time.Hour, "hang", func(t *testing.T) {
				store := dssync.MutexWrap(ds.NewMapDatastore())
				opts := []Option{WithBatchSize(batch), WithIdleWriteTime(idle), WithDsName("c17")}
				bp := New(inner, store, opts...)
				for i, op := range hist {
					if i == restartAt {
						if err := bp.Close(); err != nil {
							c.Fail("api-error", "Close: %v", err)
						}
						inner.mu.Lock()
						for k := range inner.handed {
							for _, n := range inner.handed[k] {
								queuedAtRestart += n
							}
						}
						inner.mu.Unlock()
						c.Logf("-- Close + reopen on the same datastore before op %d", i)
						time.Sleep(time.Duration(r.Intn(3)) * time.Second)
						bp = New(inner, store, opts...)
					}
					ks := make([]mh.Multihash, len(op.keys))
					for j, ki := range op.keys {
						ks[j] = keys[ki]
					}
					var err error
					switch op.kind {
					case vC17Once:
						err = bp.ProvideOnce(ks...)
					case vC17Start:
						err = bp.StartProviding(false, ks...)
					case vC17Force:
						err = bp.StartProviding(true, ks...)
					case vC17Stop:
						err = bp.StopProviding(ks...)
					}
					if err != nil {
						c.Fail("api-error", "%s: %v", vC17Names[op.kind], err)
					}
					if r.Intn(pauseEvery) == 0 {
						switch r.Intn(3) {
						case 0:
							time.Sleep(time.Millisecond)
						case 1:
							time.Sleep(time.Duration(1+r.Intn(200)) * time.Millisecond)
						case 2:
							time.Sleep(idle + time.Millisecond)
						}
					}
				}
				// drain: wait until the inner provider saw no new call during two consecutive steps (a step
				// is longer than the slowest inner call plus the idle write time), at most 2 virtual hours
				step := 200*time.Millisecond + 2*idle
				last, quiet := -1, 0
				for waited := time.Duration(0); quiet < 2 && waited < 2*time.Hour; waited += step {
					time.Sleep(step)
					synctest.Wait()
					inner.mu.Lock()
					n := inner.calls
					inner.mu.Unlock()
					if n == last {
						quiet++
					} else {
						quiet = 0
					}
					last = n
				}
				if rest, err := bp.queue.GetN(1 << 20); err == nil {
					leftInQueue = len(rest)
				}
				if err := bp.Close(); err != nil {
					c.Fail("api-error", "Close: %v", err)
				}
			})

			name := func(s string) string { return short[s] }
			inner.mu.Lock()
			defer inner.mu.Unlock()
			c.Check(leftInQueue == 0, "drained", "%d operations still in the queue although the worker has been idle for two steps", leftInQueue)
			got, exp := vC17SetOf(map[string]int{}), vC17SetOf(map[string]int{})
			for k := range inner.members {
				got = append(got, k)
			}
			for k := range model {
				exp = append(exp, k)
			}
			sort.Strings(got)
			sort.Strings(exp)
			c.Check(strings.Join(got, "") == strings.Join(exp, ""), "membership", "key set after draining differs from the one-by-one application (- only one-by-one, + only buffered): %s; inner calls: %v", vC17Diff(exp, got, name), inner.log)
			for kind := vC17Once; kind <= vC17Force; kind++ {
				g, w := vC17SetOf(inner.handed[kind]), vC17SetOf(want[kind])
				c.Check(strings.Join(g, "") == strings.Join(w, ""), "hand-over", "keys handed to the inner %s differ from the history's (- lost, + invented): %s", vC17Names[kind], vC17Diff(w, g, name))
			}
			for k := range inner.handed[vC17Stop] {
				if want[vC17Stop][k] == 0 {
					c.Fail("hand-over", "inner StopProviding got %s, which the history never stops", short[k])
				}
			}
			// observations
			ops := 0
			for _, op := range hist {
				ops += len(op.keys)
			}
			c.ObsMax("case_wall_ms_observation_only", int(time.Since(wall0)/time.Millisecond))
			c.Obs("operations_enqueued", ops)
			c.Obs("inner_calls", inner.calls)
			c.ObsMax("inner_call_keys", inner.maxBatch)
			diff := 0
			for k, n := range seqImmed {
				if (n > 0) != (inner.immed[k] > 0) {
					diff++
				}
			}
			c.Obs("keys_whose_immediate_provide_differs_from_one_by_one", diff)
			stopsCoalesced := 0
			for k, n := range want[vC17Stop] {
				if inner.handed[vC17Stop][k] < n {
					stopsCoalesced++
				}
			}
			c.Obs("keys_with_coalesced_stops", stopsCoalesced)
			if restartAt >= 0 {
				c.Obs("restarts", 1)
				c.Obs("operations_applied_before_restart", queuedAtRestart)
			}
			if stopsCoalesced > 0 || restartAt >= 0 {
				hh := fnv.New64a()
				hh.Write([]byte(hsb.String()))
				c.Nontrivial(fmt.Sprintf("%x", hh.Sum64()))
			}
		})
}
