//go:build verif

package buffered

// C14 — buffered.SweepingProvider.Close: "waits for the worker goroutine to finish processing
// current operations and closes the underneath provider. The queue current state is persisted
// on the datastore."
//
// The wrapped provider is a fake (internal.Provider is the seam) whose calls take virtual time;
// the queue persists into the journaling datastore. Clients enqueue operations at PRNG
// instants; Close instants are enumerated over the boundary events (calls into the wrapped
// provider, datastore accesses, enqueue calls) of a reference run.

import (
	"context"
	"fmt"
	"math/rand"
	"runtime"
	"runtime/debug"
	"sort"
	"strings"
	"sync"
	"sync/atomic"
	"testing"
	"testing/synctest"
	"time"

	mh "github.com/multiformats/go-multihash"

	"github.com/libp2p/go-libp2p-kad-dht/internal/verif/vc14"
	"github.com/libp2p/go-libp2p-kad-dht/internal/verif/vh"
	"github.com/libp2p/go-libp2p-kad-dht/internal/verif/vjds"
)

const (
	vC14BfCloseBound = 3 * time.Second
	// dsqueue.DefaultCloseTimeout: how long the queue waits for its final datastore writes before it aborts them
	vC14BfQueueCloseTimeout = 10 * time.Second
	vC14BfCloseHang  = 5 * time.Minute
)

type vC14BfFake struct {
	bd       *vc14.Boundary
	lat      time.Duration
	closeLat time.Duration
	closes   atomic.Int64
	calls    atomic.Int64
	queued   atomic.Int64 // calls of the three operations that only the worker hands over (Clear and RefreshSchedule are pass-through)
	closed   atomic.Bool
	afterCl  atomic.Int64 // calls that started after the fake's Close returned
}

func (f *vC14BfFake) call(name string) {
	if f.closed.Load() {
		f.afterCl.Add(1)
	}
	f.calls.Add(1)
	if name != "Clear" && name != "RefreshSchedule" {
		f.queued.Add(1)
	}
	f.bd.Tick("inner", name)
	time.Sleep(f.lat)
	f.bd.Tick("innerend", name)
}
func (f *vC14BfFake) StartProviding(force bool, keys ...mh.Multihash) error {
	f.call("StartProviding")
	return nil
}
func (f *vC14BfFake) StopProviding(keys ...mh.Multihash) error { f.call("StopProviding"); return nil }
func (f *vC14BfFake) ProvideOnce(keys ...mh.Multihash) error   { f.call("ProvideOnce"); return nil }
func (f *vC14BfFake) Clear() int                               { f.call("Clear"); return 0 }
func (f *vC14BfFake) RefreshSchedule() error                   { f.call("RefreshSchedule"); return nil }
func (f *vC14BfFake) Close() error {
	f.bd.Tick("inner", "Close")
	time.Sleep(f.closeLat)
	f.closes.Add(1)
	f.closed.Store(true)
	return nil
}

type vC14BfScn struct {
	Seed    int64
	Clients int
	OpsEach int
	Batch   int
	Idle    time.Duration
	// Stall: from the instant Close is invoked, every write to the queue's datastore hangs until its context ends
	// (a wedged disk). The queue gives its final writes 10 s (dsqueue's close timeout), then aborts them and
	// reports an error; the buffered provider's Close must still close the wrapped provider and end its worker.
	Stall bool
}

func (s vC14BfScn) String() string {
	return fmt.Sprintf("clients=%d ops=%d batch=%d idle-write=%v stalled-store-at-close=%v", s.Clients, s.OpsEach, s.Batch, s.Idle, s.Stall)
}

type vC14BfRes struct {
	Events     []vc14.Ev
	CloseIdx   int
	CloseLabel string
	Busy       string
	CloseTook  time.Duration
	Stalled    bool // the queue's final writes hung (stall class)
}

func vC14BfRun(t *testing.T, c *vh.Case, sc vC14BfScn, target int) *vC14BfRes {
	var res *vC14BfRes
	c.Bubble(t, 30*time.Minute, "close-hang", func(t *testing.T) {
		res = vC14BfRunInBubble(t, c, sc, target)
	})
	return res
}

func vC14BfRunInBubble(t *testing.T, c *vh.Case, sc vC14BfScn, target int) *vC14BfRes {
	r := rand.New(rand.NewSource(sc.Seed))
	res := &vC14BfRes{}
	tag := fmt.Sprintf("[close@%d] ", target)
	base := vc14.Owned()
	c.Check(len(base) == 0, "baseline-clean", "%sinstance-owned goroutines before construction: %v", tag, vc14.Summary(base))
	bd := vc14.NewBoundary(max(target, 0), "(*SweepingProvider).worker")
	fake := &vC14BfFake{bd: bd, lat: time.Duration(1+r.Intn(150)) * time.Millisecond, closeLat: time.Duration(r.Intn(200)) * time.Millisecond}
	store := vjds.New()
	store.J.Hook = func(e *vjds.Entry) error {
		bd.Tick("ds", e.Op)
		runtime.Gosched() // the queue library calls the datastore under its own locks
		return nil
	}
	var stalled atomic.Bool
	var stalledWrites atomic.Int64
	store.J.CtxHook = func(ctx context.Context, e *vjds.Entry) error {
		if stalled.Load() && e.IsWrite() {
			stalledWrites.Add(1)
			<-ctx.Done()
			return ctx.Err()
		}
		return nil
	}
	p := New(fake, store, WithBatchSize(sc.Batch), WithIdleWriteTime(sc.Idle))

	var mu sync.Mutex
	var panics []string
	nCalls, nLate, nErr := 0, 0, 0
	var closeReturned atomic.Bool
	var cwg sync.WaitGroup
	for cl := 0; cl < sc.Clients; cl++ {
		type step struct {
			gap  time.Duration
			kind int
			keys []mh.Multihash
		}
		var steps []step
		for i := 0; i < sc.OpsEach; i++ {
			st := step{gap: time.Duration(r.Intn(300)) * time.Millisecond, kind: r.Intn(6)}
			for k := 0; k < 1+r.Intn(5); k++ {
				h, _ := mh.Sum([]byte(fmt.Sprintf("c14bf-%d-%d", sc.Seed%997, r.Intn(30))), mh.SHA2_256, -1)
				st.keys = append(st.keys, h)
			}
			steps = append(steps, st)
		}
		cwg.Add(1)
		go func() {
			defer cwg.Done()
			for _, st := range steps {
				time.Sleep(st.gap)
				late := closeReturned.Load()
				var err error
				func() {
					defer func() {
						if pv := recover(); pv != nil {
							mu.Lock()
							panics = append(panics, fmt.Sprintf("%v\n%s", pv, debug.Stack()))
							mu.Unlock()
						}
					}()
					bd.Tick("api", fmt.Sprint(st.kind))
					switch st.kind {
					case 0, 1:
						err = p.StartProviding(st.kind == 1, st.keys...)
					case 2:
						err = p.ProvideOnce(st.keys...)
					case 3:
						err = p.StopProviding(st.keys...)
					case 4:
						if !late { // pass-through calls reach the wrapped provider directly
							p.Clear()
						}
					case 5:
						if !late {
							err = p.RefreshSchedule()
						}
					}
				}()
				mu.Lock()
				nCalls++
				if late {
					nLate++
				}
				if err != nil {
					nErr++
				}
				mu.Unlock()
			}
		}()
	}
	clientsDone := make(chan struct{})
	go func() { cwg.Wait(); close(clientsDone) }()
	settled := make(chan struct{})
	go func() { <-clientsDone; time.Sleep(5 * time.Second); close(settled) }()
	if target < 0 {
		bd.FireNow()
	}
	select {
	case <-bd.Fire:
	case <-settled:
		bd.FireNow()
	}
	evs := bd.Events()
	res.CloseIdx = len(evs)
	if n := len(evs); n > 0 {
		res.CloseLabel, res.Busy = evs[n-1].Kind+" "+evs[n-1].Label, evs[n-1].Owner
	}
	doClose := func(what string) (time.Duration, error) {
		t0 := bd.Since()
		type out struct {
			err error
			pv  string
		}
		ret := make(chan out, 1)
		go func() {
			var o out
			defer func() {
				if pv := recover(); pv != nil {
					o.pv = fmt.Sprintf("%v\n%s", pv, debug.Stack())
				}
				ret <- o
			}()
			o.err = p.Close()
		}()
		tm := time.NewTimer(vC14BfCloseHang)
		defer tm.Stop()
		select {
		case o := <-ret:
			if o.pv != "" {
				c.FailSig("close-panic", "panic@"+vh.TopRepoFrame([]byte(o.pv)), "%s%s panicked (%s; closed at event #%d %q): %s", tag, what, sc, res.CloseIdx, res.CloseLabel, o.pv)
			}
			return bd.Since() - t0, o.err
		case <-tm.C:
			buf := make([]byte, 1<<22)
			buf = buf[:runtime.Stack(buf, true)]
			c.FailSig("close-hang", "close-hang@"+vh.BlockedRepoFrame(buf), "%s%s did not return within %v (%s; closed at event #%d %q); goroutines:\n%s", tag, what, vC14BfCloseHang, sc, res.CloseIdx, res.CloseLabel, vh.FilterBubble(buf))
			c.ExitNow()
			return 0, nil
		}
	}
	stalled.Store(sc.Stall)
	took, cerr := doClose("Close")
	closeReturned.Store(true)
	res.CloseTook = took
	callsAtClose := fake.queued.Load()
	closeBound := vC14BfCloseBound
	if n := stalledWrites.Load(); n > 0 {
		closeBound += vC14BfQueueCloseTimeout // the queue's own, documented allowance for its final writes
		c.Obs("closes_with_final_writes_stalled", 1)
		res.Stalled = true
		if cerr != nil {
			c.Obs("closes_reporting_unwritten_items", 1)
		}
	}
	c.Check(took <= closeBound, "close-returns-in-bound", "%sClose took %v (bound %v), returned %v (%s; closed at event #%d %q)", tag, took, vC14BfCloseBound, cerr, sc, res.CloseIdx, res.CloseLabel)
	c.Check(fake.closes.Load() == 1, "inner-closed-once", "%sthe wrapped provider's Close was called %d times by the first Close", tag, fake.closes.Load())
	synctest.Wait()
	cA := vc14.Owned()
	c.Check(len(cA) == 0, "no-goroutine-after-close", "%sgoroutines of the buffered provider alive after Close returned (%s; closed at event #%d %q, busy %q): %v\n%s", tag, sc, res.CloseIdx, res.CloseLabel, res.Busy, vc14.Summary(cA), vc14.Dump(cA, 3))
	for k := 2; k <= 3; k++ {
		tk, _ := doClose(fmt.Sprintf("Close #%d", k))
		c.Check(tk <= vC14BfCloseBound, "close-again-returns", "%sClose #%d took %v", tag, k, tk)
	}
	c.Check(fake.closes.Load() == 1, "inner-closed-once", "%sthe wrapped provider's Close was called %d times after three Close calls", tag, fake.closes.Load())
	tm := time.NewTimer(2 * time.Minute)
	select {
	case <-clientsDone:
	case <-tm.C:
		buf := make([]byte, 1<<22)
		buf = buf[:runtime.Stack(buf, true)]
		c.FailSig("api-returns", "api-returns/stuck@"+vh.BlockedRepoFrame(buf), "%senqueue calls still running 2 virtual minutes after Close (%s)\n%s", tag, sc, vh.FilterBubble(buf))
		c.ExitNow()
	}
	tm.Stop()
	mu.Lock()
	c.Check(len(panics) == 0, "api-no-panic", "%senqueue calls panicked: %v", tag, panics)
	mu.Unlock()
	time.Sleep(2*time.Minute + sc.Idle)
	synctest.Wait()
	cB := vc14.Owned()
	if !c.Check(len(cB) == 0, "no-goroutine-after-2min", "%sgoroutines 2 virtual minutes after Close: %v\n%s", tag, vc14.Summary(cB), vc14.Dump(cB, 3)) {
		c.ExitNow()
	}
	// the worker is gone: no queued operation is handed to the wrapped provider any more. Only the three operations
	// that go through the queue are counted: a pass-through Clear/RefreshSchedule that a client started just before
	// Close returned may reach the wrapped provider afterwards, which is the client's call, not the worker's.
	c.Check(fake.queued.Load() == callsAtClose, "no-inner-call-after-close", "%s%d queued operations reached the wrapped provider after Close returned", tag, fake.queued.Load()-callsAtClose)
	// Observed, not judged: Close closes the wrapped provider before it waits for the worker (the doc comment says the
	// opposite order), so a batch in flight is handed to an already closed provider (ErrClosed, operations dropped).
	c.Obs("inner_calls_after_inner_close", int(fake.afterCl.Load()))
	res.Events = evs
	c.Obs("runs", 1)
	c.Obs("boundary_events", len(evs))
	c.Obs("journal_entries", store.J.Len())
	c.Obs("inner_calls", int(fake.calls.Load()))
	c.Obs("api_calls", nCalls)
	c.Obs("api_calls_after_close", nLate)
	c.Obs("api_errors", nErr)
	if res.Busy != "" {
		c.Obs("closes_on_busy_worker", 1)
	}
	return res
}

func TestVerif_C14_buffered(t *testing.T) {
	vh.Run(t, vh.Spec{Prop: "C14", Unit: "buffered", Quick: 50, Thorough: 2000, CostMs: 40,
		Rule:    "PRNG buffered provider over a fake wrapped provider (every call 1-150 ms of virtual time, Close 0-200 ms) and the journaling datastore (batch size 1-8, idle write time 0.1-5 s) with 1-3 clients enqueuing 2-8 StartProviding/ProvideOnce/StopProviding/Clear/RefreshSchedule; every fourth case: from the instant Close is invoked every write to the datastore hangs until its context ends (the queue aborts its final writes after its 10 s close timeout and reports an error; Close gets those 10 s on top of its bound and must still close the wrapped provider and end the worker); reference run counts boundary events (wrapped calls, datastore accesses, enqueues), re-runs Close immediately after construction, at 2 events on the worker's stack and 2 PRNG indices (thorough: all, <= 64); non-trivial = Close while the worker was inside a wrapped call",
		Clauses: []string{"baseline-clean", "close-returns-in-bound", "inner-closed-once", "no-goroutine-after-close", "close-again-returns", "api-no-panic", "no-goroutine-after-2min", "no-inner-call-after-close"}},
		func(c *vh.Case) {
			r := c.R
			sc := vC14BfScn{Seed: r.Int63(), Clients: 1 + r.Intn(3), OpsEach: 2 + r.Intn(7), Batch: 1 + r.Intn(8), Idle: time.Duration(100+r.Intn(4900)) * time.Millisecond}
			sc.Stall = c.Idx%4 == 3
			c.Set("scenario", sc.String())
			c.Set("seed", sc.Seed)
			ref := vC14BfRun(t, c, sc, 0)
			idxs := vc14.PickIndices(r, ref.Events, 2, 2, c.Tier == "thorough", 64)
			c.Set("close_indices", idxs)
			c.Logf("reference run: %d boundary events, Close after everything took %v", len(ref.Events), ref.CloseTook)
			var sigs []string
			for _, i := range idxs {
				if i > len(ref.Events) {
					continue
				}
				tg := i
				if i == 0 {
					tg = -1
				}
				res := vC14BfRun(t, c, sc, tg)
				c.Logf("close@%d: event #%d %q busy=%q took %v", tg, res.CloseIdx, res.CloseLabel, res.Busy, res.CloseTook)
				if res.Busy != "" {
					sigs = append(sigs, res.CloseLabel)
				}
				if res.Stalled {
					sigs = append(sigs, "stalled")
				}
			}
			if len(sigs) > 0 {
				sort.Strings(sigs)
				c.Nontrivial(fmt.Sprintf("%d/%s", sc.Batch, strings.Join(sigs, ",")))
			}
		})
}
