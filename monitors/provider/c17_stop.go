//go:build verif

package provider

// C17/stopinflight — "Keys passed to StopProviding are not re-advertised in later cycles", when the stop arrives
// while the provide batch that holds the keys is on the wire and the batch then fails.
//
// A swarm in which most recipients are unreachable (85-95 %): every provide batch reaches the few healthy peers,
// counts as failed (fewer than 20 % of the region's peers reachable) and is put back for the next 5-minute retry.
// StopProviding removes its keys from the provide queue - but the keys of a batch in flight are not in the queue,
// and a failed batch puts back the key list it captured. The unit places the stop (a) inside a retry (some RPC in
// flight) in such a swarm, or (b, control) inside a periodic reprovide batch on the wire in a healthy swarm, and
// follows the stopped keys for more than three reprovide intervals with the ordinary C17 oracle (evaluate: clause
// "stop").

import (
	"fmt"
	"testing"
	"testing/synctest"
	"time"

	"github.com/libp2p/go-libp2p-kad-dht/internal/verif/vh"
)

func TestVerif_C17_stopinflight(t *testing.T) {
	vh.Run(t, vh.Spec{Prop: "C17", Unit: "stopinflight", Quick: 12, Thorough: 300, CostMs: 2500,
		Rule:    "20-120 peers, r in {3,5}, 20-80 keys started in one call; even cases: 85-95 % of the peers are unreachable recipients (the router still names them), so provide batches fail and are retried; odd cases (control): 0-24 % unreachable; after 12-40 virtual minutes StopProviding of every second key, placed at the next instant at which an ADD_PROVIDER (of a retried provide batch resp. of a periodic reprovide) is in flight; then 3.3 more reprovide intervals; oracle: the shared C17 evaluation (stopped keys: no send outside the retry chain of work in flight at the stop, and no send at all later than interval + max delay + slack after the stop; kept keys: windows as usual); non-trivial = the stop was placed as planned and at least one stopped key was judged; distinct by (parameters, stop instant)",
		Clauses: []string{"selfcheck", "stop", "provide-bound", "reprovide-window"}},
		func(c *vh.Case) {
			if !vC17SelfCheck(c) {
				return
			}
			failing := c.Idx%2 == 0
			p := vC17Params{N: 20 + c.R.Intn(101), nKeys: 20 + c.R.Intn(61), r: []int{3, 5}[c.R.Intn(2)], deadPct: 85 + c.R.Intn(11), // replaced below for the control class
				workers: vC17WorkerConfigs[c.R.Intn(len(vC17WorkerConfigs))], sendLat: time.Duration(c.R.Intn(3)) * 200 * time.Millisecond}
			if !failing {
				p.deadPct = c.R.Intn(25)
			}
			stopAfter := time.Duration(12+c.R.Intn(29)) * time.Minute
			c.Set("failing_swarm", failing)
			c.Set("stop_not_before", stopAfter.String())
			var sim *vC17Sim
			var end, stopAt time.Duration
			placed := false
			c.Bubble(t, 12*time.Hour, "hang", func(t *testing.T) {
				in := map[int32]bool{}
				sim = vC17NewSim(c, p.r, p.deadPct, p.routerLat, p.sendLat, vC17PickPeers(c, p.N, false, in))
				sim.describeCase(p)
				prov, err := New(sim.options(p.workers)...)
				if err != nil {
					c.Fail("api-error", "New: %v", err)
					return
				}
				defer func() {
					sim.rest()
					sim.closing.Store(true)
					if err := prov.Close(); err != nil {
						c.Fail("api-error", "Close: %v", err)
					}
				}()
				if !c.Check(sim.waitOnline(prov), "online-after-start", "provider not online / prefix length not measured 20 s after New with a healthy router") {
					return
				}
				keys := vC17PickKeys(c, p.nKeys, false)
				sim.sleepUntil(sim.now() + time.Duration(1+c.R.Intn(120))*time.Second)
				sim.start(prov, true, keys)
				sim.sleepUntil(stopAfter)
				// place the stop: the next instant at which an ADD_PROVIDER is on the wire
				for i := 0; i < 80000 && !placed; i++ {
					synctest.Wait()
					if sim.sendInflight.Load() > 0 {
						placed = true
						break
					}
					time.Sleep(50 * time.Millisecond)
				}
				var part []int32
				for i, k := range keys {
					if i%2 == 0 && sim.kept(k) {
						part = append(part, k)
					}
				}
				stopAt = sim.now()
				sim.stop(prov, part)
				sim.sleepUntil(stopAt + 3*vC17Interval + 20*time.Minute)
				sim.rest()
				end = sim.now()
			})
			if sim == nil || end == 0 {
				return
			}
			v := sim.evaluate(end, true)
			c.Obs("stop_placed_in_failing_swarm", map[bool]int{true: 1}[placed && failing])
			c.Obs("stop_placed_in_healthy_swarm", map[bool]int{true: 1}[placed && !failing])
			if placed && v.stopJudged > 0 {
				c.Nontrivial(fmt.Sprintf("%s stop@%v", p, stopAt.Round(time.Second)))
			}
		})
}
