#!/usr/bin/env python3
"""Regenerates /verif/MANIFEST.json from props.json and the monitors present (run after adding monitors)."""
import json, os, re, subprocess, sys
V = os.path.dirname(os.path.dirname(os.path.abspath(__file__)))
props = [json.loads(l) for l in open(os.path.join(V, "properties.jsonl"))]
table = json.load(open(os.path.join(V, "props.json")))
listing = subprocess.run([os.path.join(V, "verif"), "list"], capture_output=True, text=True).stdout
have = {}
for l in listing.splitlines():
    p, pkg, test = l.split()[:3]
    have.setdefault(p, []).append((pkg, test, "[race]" in l))
hooks = {"guard": "verif",
         "enable": "cd /repo && go test -tags verif -overlay /verif/build/overlay.<pid>.json -modfile=/verif/build/mod/go.mod ./<pkg> — monitor sources (/verif/monitors, /verif/lib) are injected as in-package zz_verif_*_test.go files and an internal/verif helper package; no source file of /repo carries instrumentation",
         "baseline_off_cmd": "cd /repo && GOFLAGS=-mod=mod GOPROXY=off go test -vet=off -count=1 -timeout 25m ./...",
         "source_commits": [], "add_only": True}
checks, na = [], []
registered = set(open(os.path.join(V, "registered.txt")).read().split())
for p in props:
    i = p["id"]
    m = table[i]
    if i not in have or m.get("disabled") or i not in registered:
        na.append({"property_id": i, "reason": m.get("na_reason", "monitor not registered yet (implementation in progress; design in DESIGN.md section 4)")})
        continue
    units = ", ".join(sorted({t.split("_", 2)[2] for _, t, _ in have[i]}))
    race = any(r for _, _, r in have[i])
    checks.append({
        "property_id": i,
        "quick_cmd": "./verif check %s --tier quick" % i,
        "thorough_cmd": "./verif check %s --tier thorough" % i,
        "evidence_file": "evidence/%s.json" % i,
        "replay_cmd_template": "./verif replay {path}",
        "engine": "verif-monitors",
        "level_claimed": {"category": m["level"], "text": m.get("level_text", "held on the executions observed; see evidence for counts"),
                          "design_ref": m.get("design_ref", "DESIGN.md section 4")},
        "level_note": "; ".join(m.get("assumptions", [])),
        "technique": m.get("technique", "runtime monitoring: seeded workloads on the real code, oracle over recorded events") + (" (units: %s%s)" % (units, "; race detector on the parallel units" if race else "")),
    })
man = {"version": 1, "setup_cmd": "./verif setup", "hooks": hooks,
       "engines": [{"name": "verif-monitors", "path": "verif", "serves_properties": [c["property_id"] for c in checks],
                    "kind_free_text": "python driver + Go monitors injected by go test -overlay under build tag verif; testing/synctest virtual time, simulated peers, journaling datastore, porcupine, race detector"}],
       "checks": checks,
       "notes": "Exit codes: 0 held on everything explored, 1 VIOLATION, 2 INCONCLUSIVE (build failure / watchdog / unexercised clause). VERIF_SEED and VERIF_TIER are honoured. Known findings: KNOWN_FINDINGS.txt.",
       "not_applicable": na}
json.dump(man, open(os.path.join(V, "MANIFEST.json"), "w"), indent=1)
print("checks:", [c["property_id"] for c in checks], "n/a:", [n["property_id"] for n in na])
