#!/bin/bash
# sweep.sh [tier] [seeds...]: every registered check at the given seeds (default quick, 1..5), from fresh processes.
# Evidence files are left untouched (--noevidence); prints one line per run plus any verdict lines.
cd "$(dirname "$0")/.."
TIER=${1:-quick}; shift
SEEDS=${@:-1 2 3 4 5}
for p in $(cat registered.txt); do
  for s in $SEEDS; do
    out=$(./verif check $p --tier $TIER --seed $s --noevidence 2>&1)
    rc=$?
    echo "$(echo "$out" | grep -E "^C[0-9]+ tier" | head -1) rc=$rc"
    echo "$out" | grep -E "VIOLATION|sig=|INCONCLUSIVE" | cut -c1-300 | head -6
  done
done
