#!/bin/bash
# mkseedk.sh <PROP> <suffix>: like mkseed.sh, plus a "required area/kind" line taken from /tmp/seed/kinds.txt (steers diversity; says nothing about the checks)
set -e
P=$1; S=$2; D=/tmp/seed/$P$S
tools/mkseed.sh $P $S >/dev/null
K=$(grep "^$P|" /tmp/seed/kinds.txt | cut -d'|' -f2)
python3 - "$D.prompt" "$K" <<'PY'
import sys
p,k=sys.argv[1],sys.argv[2]
s=open(p).read()
s=s.replace("Requirements for the change:","Required area / kind of change for this assignment (to keep several engineers' seeded defects different from each other): %s.\n\nRequirements for the change:" % k)
open(p,'w').write(s)
PY
echo $D.prompt
