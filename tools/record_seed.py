#!/usr/bin/env python3
"""record_seed.py <id> <caught|missed> <check/unit that catches it> [note]: annotates seeded/<id>/meta.json after confirmation."""
import json, sys, os, datetime
V = os.path.dirname(os.path.dirname(os.path.abspath(__file__)))
p = os.path.join(V, "seeded", sys.argv[1], "meta.json")
m = json.load(open(p))
m["confirmed_by_lead"] = {"ran": "tools/confirm_seed.sh seeded/%s (fresh scratch worktree of /repo: demo passes without the change, fails with it; go build ./... ok; full existing suite passes with the change)" % sys.argv[1],
                          "result": "CONFIRMED"}
m["detection"] = {"status": sys.argv[2], "by": sys.argv[3], "cmd": "./verif check %s --mutant seeded/%s/patch.diff --noevidence" % (m["property"] if isinstance(m["property"], str) else m["property"][0], sys.argv[1]),
                  "note": sys.argv[4] if len(sys.argv) > 4 else ""}
json.dump(m, open(p, "w"), indent=1)
print("recorded", sys.argv[1])
