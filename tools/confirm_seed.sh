#!/bin/bash
# confirm_seed.sh <seed dir containing patch.diff, demo_test.go.txt, meta.json>
# Confirms in a fresh scratch worktree of /repo (outside /repo and /verif) that the seeded change
#  (1) applies and builds, (2) the demonstration passes without it and fails with it,
#  (3) the whole existing suite still passes with it. The worktree is removed afterwards.
set -u
SEED=$(realpath "$1")
NAME=$(basename "$SEED")
WT=/tmp/seedchk/$NAME
export GOFLAGS=-mod=mod GOPROXY=off
rm -rf "$WT"; mkdir -p /tmp/seedchk
git -C /repo worktree add -q --detach "$WT" HEAD || exit 2
cleanup() { git -C /repo worktree remove --force "$WT" 2>/dev/null; rm -rf "$WT"; }
trap cleanup EXIT
# where does the demo go? first line: "// place in <dir>/<file>" (free text): take the first token that looks like a path ending in _test.go
DEMO="$SEED/demo_test.go.txt"
DEMOCMD=$(python3 -c "import json,sys;print(json.load(open('$SEED/meta.json'))['demo_cmd'])")
REL=$(head -5 "$DEMO" | grep -o '[A-Za-z0-9_./-]*_test\.go' | head -1)
[ -z "$REL" ] && { echo "cannot find demo location"; exit 2; }
REL=${REL#./}
if [ "$(dirname "$REL")" = "." ]; then
  # bare file name: the package directory is the ./path argument of the demo command
  PKG=$(echo "$DEMOCMD" | grep -o ' \./[A-Za-z0-9_/.-]*' | tail -1 | tr -d ' '); PKG=${PKG#./}; PKG=${PKG%/}
  [ -n "$PKG" ] && [ "$PKG" != "..." ] && [ "$PKG" != "." ] && REL="$PKG/$REL"
fi
# normalise the command: run inside the worktree
DEMOCMD=$(echo "$DEMOCMD" | sed -E "s#cd [^ ;&]+ *(&&|;) *##; s#GOFLAGS=[^ ]+ ##; s#GOPROXY=[^ ]+ ##")
mkdir -p "$WT/$(dirname "$REL")"
cp "$DEMO" "$WT/$REL"
cd "$WT"
echo "== demo WITHOUT change: $DEMOCMD"
if timeout 900 bash -c "$DEMOCMD" > /tmp/seedchk/$NAME.without.log 2>&1; then echo "   passes (ok)"; else echo "   FAILS without the change -> reject"; tail -20 /tmp/seedchk/$NAME.without.log; exit 1; fi
git apply "$SEED/patch.diff" || { echo "patch does not apply"; exit 1; }
go build ./... || { echo "does not build"; exit 1; }
echo "== demo WITH change"
if timeout 900 bash -c "$DEMOCMD" > /tmp/seedchk/$NAME.with.log 2>&1; then echo "   still passes -> reject"; exit 1; else echo "   fails (ok)"; fi
rm -f "$WT/$REL"
echo "== full suite WITH change"
if timeout 1500 go test -vet=off -count=1 -timeout 25m ./... > /tmp/seedchk/$NAME.suite.log 2>&1; then echo "   passes (ok)"; else echo "   suite FAILS with the change -> reject"; grep -E "^(FAIL|--- FAIL|panic)" /tmp/seedchk/$NAME.suite.log | head; exit 1; fi
echo "CONFIRMED $NAME"
