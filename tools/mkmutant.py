#!/usr/bin/env python3
"""mkmutant.py <name> <props> <file relative to /repo> <old> <new> [<file2> <old2> <new2> ...]: writes /verif/mutants/<name>.patch"""
import sys, os, subprocess, tempfile, shutil
name, props = sys.argv[1], sys.argv[2]
trip = sys.argv[3:]
out = "# property: %s\n" % props
for i in range(0, len(trip), 3):
    f, old, new = trip[i:i+3]
    src = open(os.path.join("/repo", f)).read()
    if src.count(old) != 1:
        sys.exit("pattern occurs %d times in %s" % (src.count(old), f))
    d = tempfile.mkdtemp()
    os.makedirs(os.path.join(d, "a", os.path.dirname(f)), exist_ok=True)
    os.makedirs(os.path.join(d, "b", os.path.dirname(f)), exist_ok=True)
    open(os.path.join(d, "a", f), "w").write(src)
    open(os.path.join(d, "b", f), "w").write(src.replace(old, new))
    r = subprocess.run(["diff", "-u", os.path.join("a", f), os.path.join("b", f)], cwd=d, capture_output=True, text=True)
    out += r.stdout
    shutil.rmtree(d)
open(os.path.join(os.path.dirname(os.path.dirname(os.path.abspath(__file__))), "mutants", name + ".patch"), "w").write(out)
print("wrote", name)
