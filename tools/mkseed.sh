#!/bin/bash
# mkseed.sh <PROP> <suffix>: scratch worktree /tmp/seed/<PROP><suffix> + prompt file with ONLY the property text
set -e
P=$1; S=$2; D=/tmp/seed/$P$S
mkdir -p /tmp/seed
git -C /repo worktree add -q --detach $D HEAD
python3 - "$P" "$D" <<'PY'
import json,sys
P,D=sys.argv[1],sys.argv[2]
for l in open('/verif/properties.jsonl'):
    p=json.loads(l)
    if p['id']==P:
        text="%s — %s\n\n%s\n\nQuantified over: %s\n"%(p['id'],p['title'],p['statement'],p['quantifier']['text'])
t=open('/tmp/seed/PROMPT.tmpl').read().replace('@@DIR@@',D).replace('@@ID@@',P).replace('@@TEXT@@',text)
open(D+'.prompt','w').write(t)
PY
echo $D.prompt
