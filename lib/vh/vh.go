//go:build verif

// Package vh is the case harness shared by all verification monitors.
//
// A monitor is a Go test function `TestVerif_<PROP>_<unit>` (or `TestVerifRace_…` for the
// -race build) that calls Run exactly once. Run derives a fixed list of cases from
// (VERIF_SEED, property, unit, index), runs the share of this batch, and appends one JSON
// record per case to $VERIF_OUT. The python driver (/verif/verif) aggregates the records
// into evidence and verdicts. Verdicts never depend on wall-clock time; the wall-clock
// watchdog in here only produces "inconclusive".
package vh

import (
	"bytes"
	"encoding/json"
	"fmt"
	"hash/fnv"
	"math/rand"
	"os"
	"regexp"
	"runtime"
	"runtime/debug"
	"sort"
	"strconv"
	"strings"
	"sync"
	"sync/atomic"
	"testing"
	"testing/synctest"
	"time"
)

// Spec describes one unit of a property's check.
type Spec struct {
	Prop, Unit string
	Quick      int      // number of cases in the quick tier
	Thorough   int      // number of cases in the thorough tier
	Rule       string   // how cases are generated and what makes one non-trivial
	CostMs     int      // rough wall cost per case (driver sizes batches with it)
	Clauses    []string // oracle clauses that must have judged something at least once per run
	Exhaustive bool     // the unit enumerates a finite space completely
	WallS      int      // per-case wall-clock watchdog (default 120 s); firing = inconclusive
}

// Violation is one refuted oracle clause.
type Violation struct {
	Clause string `json:"clause"`
	Sig    string `json:"sig"` // stable signature: clause + call site / input class
	Detail string `json:"detail"`
}

// Case carries the PRNG, the descriptor and the observations of one execution.
type Case struct {
	Spec *Spec
	Idx  int
	Seed int64
	Tier string
	R    *rand.Rand

	mu       sync.Mutex
	desc     map[string]any
	obs      map[string]int64
	cl       map[string]int64
	viol     []Violation
	sig      string
	nt       bool
	log      []string
	terminal bool
}

var (
	outMu   sync.Mutex
	envOut  = os.Getenv("VERIF_OUT")
	curCase atomic.Pointer[Case]
	curWall atomic.Int64 // unix nanos (real) at which the case in flight started
)

func envInt(name string, def int64) int64 {
	if s := os.Getenv(name); s != "" {
		if v, err := strconv.ParseInt(s, 10, 64); err == nil {
			return v
		}
	}
	return def
}

// Seed returns VERIF_SEED (default 1).
func Seed() int64 { return envInt("VERIF_SEED", 1) }

// Tier returns VERIF_TIER (quick unless "thorough").
func Tier() string {
	if os.Getenv("VERIF_TIER") == "thorough" {
		return "thorough"
	}
	return "quick"
}

func mix(seed int64, prop, unit string, idx int) int64 {
	h := fnv.New64a()
	fmt.Fprintf(h, "%d|%s|%s|%d", seed, prop, unit, idx)
	x := h.Sum64()
	// splitmix64 finaliser
	x += 0x9e3779b97f4a7c15
	x = (x ^ (x >> 30)) * 0xbf58476d1ce4e5b9
	x = (x ^ (x >> 27)) * 0x94d049bb133111eb
	x ^= x >> 31
	return int64(x & 0x7fffffffffffffff)
}

func emit(rec map[string]any) {
	b, err := json.Marshal(rec)
	if err != nil {
		b, _ = json.Marshal(map[string]any{"type": "error", "error": err.Error()})
	}
	b = append(b, '\n')
	outMu.Lock()
	defer outMu.Unlock()
	if envOut == "" {
		return
	}
	f, err := os.OpenFile(envOut, os.O_APPEND|os.O_CREATE|os.O_WRONLY, 0o644)
	if err != nil {
		fmt.Fprintln(os.Stderr, "vh: cannot write", envOut, err)
		os.Exit(5)
	}
	f.Write(b)
	f.Close()
}

func writeInflight(s *Spec, idx int) {
	if envOut == "" {
		return
	}
	os.WriteFile(envOut+".inflight", []byte(fmt.Sprintf(`{"prop":%q,"unit":%q,"idx":%d}`, s.Prop, s.Unit, idx)), 0o644)
}

// Run executes this batch's share of the unit's cases.
func Run(t *testing.T, spec Spec, body func(c *Case)) {
	if spec.WallS == 0 {
		spec.WallS = 120
	}
	if os.Getenv("VERIF_DESCRIBE") != "" {
		emit(map[string]any{"type": "spec", "prop": spec.Prop, "unit": spec.Unit, "quick": spec.Quick,
			"thorough": spec.Thorough, "rule": spec.Rule, "cost_ms": spec.CostMs, "clauses": spec.Clauses,
			"exhaustive": spec.Exhaustive, "test": t.Name()})
		return
	}
	seed, tier := Seed(), Tier()
	n := spec.Quick
	if tier == "thorough" {
		n = spec.Thorough
	}
	if s := os.Getenv("VERIF_SCALE"); s != "" && !spec.Exhaustive {
		if f, err := strconv.ParseFloat(s, 64); err == nil {
			n = int(float64(n) * f)
		}
	}
	if n < 1 {
		n = 1
	}
	bi, bn := 0, 1
	if s := os.Getenv("VERIF_BATCH"); s != "" {
		fmt.Sscanf(s, "%d/%d", &bi, &bn)
		if bn < 1 {
			bn = 1
		}
	}
	resume := int(envInt("VERIF_RESUME", 0))
	var only map[int]bool
	if s := os.Getenv("VERIF_ONLY"); s != "" {
		only = map[int]bool{}
		for _, p := range strings.Split(s, ",") {
			if v, err := strconv.Atoi(strings.TrimSpace(p)); err == nil {
				only[v] = true
			}
		}
	}
	startWatchdog()
	ran, samples := 0, 0
	for idx := 0; idx < n; idx++ {
		if only != nil {
			if !only[idx] {
				continue
			}
		} else if idx%bn != bi || idx < resume {
			continue
		}
		writeInflight(&spec, idx)
		c := &Case{Spec: &spec, Idx: idx, Seed: seed, Tier: tier, R: rand.New(rand.NewSource(mix(seed, spec.Prop, spec.Unit, idx))),
			desc: map[string]any{}, obs: map[string]int64{}, cl: map[string]int64{}}
		curCase.Store(c)
		curWall.Store(time.Now().UnixNano())
		runBody(c, body)
		curWall.Store(0)
		curCase.Store(nil)
		ran++
		c.mu.Lock()
		rec := map[string]any{"type": "case", "prop": spec.Prop, "unit": spec.Unit, "idx": idx, "seed": seed, "sig": c.sig, "nt": c.nt,
			"obs": c.obs, "cl": c.cl}
		if len(c.viol) > 0 {
			rec["viol"] = c.viol
			rec["desc"] = c.desc
			rec["log"] = c.log
		} else if (c.nt && samples < 2) || only != nil {
			samples++
			rec["desc"] = c.desc
			if len(c.log) > 12 {
				rec["log"] = c.log[:12]
			} else {
				rec["log"] = c.log
			}
		}
		terminal := c.terminal
		nviol := len(c.viol)
		c.mu.Unlock()
		emit(rec)
		if envOut == "" && nviol > 0 {
			t.Errorf("%s/%s idx=%d: %d violation(s): %+v", spec.Prop, spec.Unit, idx, nviol, c.viol)
		}
		if terminal {
			// a goroutine of the code under test is stuck for ever: this process cannot go on.
			os.Exit(3)
		}
	}
	emit(map[string]any{"type": "done", "prop": spec.Prop, "unit": spec.Unit, "ran": ran, "planned": n, "batch": fmt.Sprintf("%d/%d", bi, bn)})
	if envOut != "" {
		os.Remove(envOut + ".inflight")
	}
}

func runBody(c *Case, body func(c *Case)) {
	defer func() {
		if r := recover(); r != nil {
			st := debug.Stack()
			c.FailSig("panic", "panic@"+TopRepoFrame(st), "recovered panic: %v\n%s", r, trim(string(st), 6000))
		}
	}()
	body(c)
}

var wdOnce sync.Once

// startWatchdog starts the real-time watchdog (outside any bubble). It never produces a
// verdict: a case that exceeds its wall budget is reported as inconclusive (exit code 4).
func startWatchdog() {
	wdOnce.Do(func() {
		go func() {
			var lastFix string
			fixCount := 0
			for {
				time.Sleep(500 * time.Millisecond)
				c := curCase.Load()
				st := curWall.Load()
				if c == nil || st == 0 {
					lastFix, fixCount = "", 0
					continue
				}
				elapsed := time.Since(time.Unix(0, st))
				reason := ""
				var buf []byte
				if elapsed > time.Duration(c.Spec.WallS)*time.Second {
					reason = fmt.Sprintf("wall-clock watchdog (%d s) fired", c.Spec.WallS)
				} else if elapsed > 5*time.Second {
					// a bubble whose virtual time cannot advance: every goroutine of the process is blocked, at least one
					// bubble goroutine on a sync mutex (not a durable wait), and nothing has changed over four samples. This
					// does not depend on the load of the machine (a goroutine waiting for a CPU is runnable, not blocked).
					// It is NOT a verdict: the lock may have leaked (deadlock), or it is held across a simulated delay
					// (an artefact of virtual time) - the two cannot be told apart from outside.
					buf = make([]byte, 1<<22)
					buf = buf[:runtime.Stack(buf, true)]
					if sig, frame := stallSignature(buf); sig != "" && sig == lastFix {
						fixCount++
						if fixCount >= 3 {
							reason = "virtual time cannot advance: a goroutine is blocked on a sync mutex in " + frame + " while every other goroutine is blocked (lock never released, or held across a simulated delay); wall-clock watchdog"
						}
					} else {
						lastFix, fixCount = sig, 0
					}
				}
				if reason != "" {
					if buf == nil {
						buf = make([]byte, 1<<22)
						buf = buf[:runtime.Stack(buf, true)]
					}
					emit(map[string]any{"type": "inconclusive", "prop": c.Spec.Prop, "unit": c.Spec.Unit, "idx": c.Idx, "seed": c.Seed,
						"reason": reason, "desc": c.descCopy(), "dump": trim(string(buf), 60000)})
					os.Exit(4)
				}
			}
		}()
	})
}

var goHdrRe = regexp.MustCompile(`^goroutine (\d+) \[([^\],]+)`)

// stallSignature returns a canonical description of the goroutine states of a dump if the process is at a fixed
// point with a bubble goroutine blocked on a sync mutex ("" otherwise), and the function of the module under test
// in which that goroutine is blocked.
func stallSignature(dump []byte) (string, string) {
	var parts []string
	frame := ""
	for i, g := range Goroutines(dump) {
		if i == 0 {
			continue // the watchdog itself (the goroutine calling runtime.Stack comes first)
		}
		first, _, _ := strings.Cut(g, "\n")
		m := goHdrRe.FindStringSubmatch(first)
		if m == nil {
			return "", ""
		}
		state := strings.TrimSuffix(strings.TrimSpace(m[2]), " (durable)")
		switch state {
		case "chan receive", "chan send", "select", "sleep", "sync.WaitGroup.Wait", "sync.Cond.Wait", "semacquire", "IO wait",
			"synctest.Run", "synctest.Wait", "select (no cases)", "chan receive (nil chan)", "chan send (nil chan)":
		case "sync.Mutex.Lock", "sync.RWMutex.Lock", "sync.RWMutex.RLock":
			if strings.Contains(first, "synctest bubble") && frame == "" {
				if f := TopRepoFrame([]byte(g)); f != "unknown" {
					frame = f
				}
			}
		case "syscall":
			if !strings.Contains(g, "os/signal.signal_recv") {
				return "", ""
			}
		default:
			return "", "" // running, runnable, GC states, anything unknown: not a fixed point
		}
		lines := strings.SplitN(g, "\n", 3)
		top := ""
		if len(lines) > 1 {
			top = lines[1]
			if i := strings.LastIndex(top, "("); i > 0 {
				top = top[:i]
			}
		}
		parts = append(parts, m[1]+":"+state+":"+top)
	}
	if frame == "" {
		return "", ""
	}
	sort.Strings(parts)
	return strings.Join(parts, "|"), frame
}

func (c *Case) descCopy() map[string]any {
	if !c.mu.TryLock() {
		return map[string]any{"_": "descriptor locked"}
	}
	defer c.mu.Unlock()
	m := map[string]any{}
	for k, v := range c.desc {
		m[k] = v
	}
	return m
}

func trim(s string, n int) string {
	if len(s) > n {
		return s[:n] + "…"
	}
	return s
}

// Set records a descriptor field (an input of the case).
func (c *Case) Set(k string, v any) {
	c.mu.Lock()
	c.desc[k] = v
	c.mu.Unlock()
}

// Obs adds n to an observation counter (events / RPCs / frames actually seen).
func (c *Case) Obs(k string, n int) {
	c.mu.Lock()
	c.obs[k] += int64(n)
	c.mu.Unlock()
}

// ObsMax keeps the maximum of an observation.
func (c *Case) ObsMax(k string, n int) {
	c.mu.Lock()
	if int64(n) > c.obs["max_"+k] {
		c.obs["max_"+k] = int64(n)
	}
	c.mu.Unlock()
}

// Clause notes that an oracle clause had something to judge (non-vacuous evaluation).
func (c *Case) Clause(name string) { c.ClauseN(name, 1) }

// ClauseN notes n non-vacuous evaluations of a clause.
func (c *Case) ClauseN(name string, n int) {
	c.mu.Lock()
	c.cl[name] += int64(n)
	c.mu.Unlock()
}

// Check evaluates a clause: counts it and records a violation when ok is false.
func (c *Case) Check(ok bool, clause, format string, args ...any) bool {
	c.Clause(clause)
	if !ok {
		c.Fail(clause, format, args...)
	}
	return ok
}

// Fail records a violation whose signature is the clause name.
func (c *Case) Fail(clause, format string, args ...any) {
	c.FailSig(clause, clause, format, args...)
}

// FailSig records a violation with an explicit stable signature.
func (c *Case) FailSig(clause, sig, format string, args ...any) {
	c.mu.Lock()
	if len(c.viol) < 20 {
		c.viol = append(c.viol, Violation{Clause: clause, Sig: c.Spec.Prop + "/" + c.Spec.Unit + "/" + sig, Detail: trim(fmt.Sprintf(format, args...), 8000)})
	}
	c.mu.Unlock()
}

// Failed reports whether the case has recorded a violation.
func (c *Case) Failed() bool {
	c.mu.Lock()
	defer c.mu.Unlock()
	return len(c.viol) > 0
}

// Nontrivial marks the case as non-trivial with a signature used to count distinct cases.
func (c *Case) Nontrivial(sig string) {
	c.mu.Lock()
	c.nt = true
	c.sig = sig
	c.mu.Unlock()
}

// Logf appends a line to the case's history (kept for samples and witnesses).
func (c *Case) Logf(format string, args ...any) {
	c.mu.Lock()
	if len(c.log) < 400 {
		c.log = append(c.log, trim(fmt.Sprintf(format, args...), 600))
	}
	c.mu.Unlock()
}

// Terminal makes the process exit (code 3) after this case's record is written: used when
// a goroutine of the code under test is blocked for ever and cannot be torn down.
func (c *Case) Terminal() {
	c.mu.Lock()
	c.terminal = true
	c.mu.Unlock()
}

// ExitNow writes the record of the case in flight and exits (code 3). For watchdogs that
// fire on a goroutine other than the one running the case body.
func (c *Case) ExitNow() {
	c.mu.Lock()
	rec := map[string]any{"type": "case", "prop": c.Spec.Prop, "unit": c.Spec.Unit, "idx": c.Idx, "seed": c.Seed, "sig": c.sig, "nt": c.nt,
		"obs": c.obs, "cl": c.cl, "viol": c.viol, "desc": c.desc, "log": c.log}
	emit(rec)
	os.Exit(3)
}

// Bubble runs body inside a testing/synctest bubble with a virtual-time watchdog: if body
// has not returned after `budget` of virtual time, a "hang" violation (clause hangClause) is
// recorded with the goroutine dump and the process exits, because a blocked goroutine cannot
// be unwound. A deadlock reported by synctest (root returned, blocked goroutines remain)
// surfaces as a panic caught by Run.
func (c *Case) Bubble(t *testing.T, budget time.Duration, hangClause string, body func(t *testing.T)) {
	synctest.Test(t, func(t *testing.T) {
		done := make(chan struct{})
		go func() {
			tm := time.NewTimer(budget)
			defer tm.Stop()
			select {
			case <-done:
			case <-tm.C:
				buf := make([]byte, 1<<22)
				buf = buf[:runtime.Stack(buf, true)]
				c.FailSig(hangClause, hangClause+"@"+BlockedRepoFrame(buf), "virtual-time budget %v exhausted; goroutines:\n%s", budget, trim(FilterBubble(buf), 40000))
				c.ExitNow()
			}
		}()
		defer close(done)
		body(t)
	})
}

var frameRe = regexp.MustCompile(`(?m)^(github\.com/libp2p/go-libp2p-kad-dht\S*)\(.*\n\t(\S+):(\d+)`)

// TopRepoFrame returns the first function of the module under test (not a monitor file)
// found in a stack trace, for stable panic signatures.
func TopRepoFrame(stack []byte) string {
	for _, m := range frameRe.FindAllSubmatch(stack, -1) {
		file := string(m[2])
		if strings.Contains(file, "zz_verif_") || strings.Contains(file, "/internal/verif/") {
			continue
		}
		fn := string(m[1])
		fn = strings.TrimPrefix(fn, "github.com/libp2p/go-libp2p-kad-dht")
		return strings.TrimPrefix(fn, "/")
	}
	return "unknown"
}

// Goroutines splits a full runtime.Stack dump into per-goroutine blocks.
func Goroutines(dump []byte) []string {
	var out []string
	for _, g := range bytes.Split(dump, []byte("\n\n")) {
		if bytes.HasPrefix(bytes.TrimSpace(g), []byte("goroutine ")) {
			out = append(out, string(bytes.TrimSpace(g)))
		}
	}
	return out
}

// FilterBubble keeps the goroutines of a dump that belong to a synctest bubble.
func FilterBubble(dump []byte) string {
	var sb strings.Builder
	for _, g := range Goroutines(dump) {
		first, _, _ := strings.Cut(g, "\n")
		if strings.Contains(first, "synctest") {
			sb.WriteString(g)
			sb.WriteString("\n\n")
		}
	}
	if sb.Len() == 0 {
		return string(dump)
	}
	return sb.String()
}

// BlockedRepoFrame names the innermost function of the module under test in which a bubble
// goroutine (not the watchdog, not a monitor goroutine) is blocked; used as hang signature.
func BlockedRepoFrame(dump []byte) string {
	seen := map[string]int{}
	best := "unknown"
	for _, g := range Goroutines(dump) {
		first, _, _ := strings.Cut(g, "\n")
		if !strings.Contains(first, "synctest") {
			continue
		}
		f := TopRepoFrame([]byte(g))
		if f == "unknown" {
			continue
		}
		seen[f]++
	}
	// deterministic choice: lexicographically smallest among the deepest-known frames
	for f := range seen {
		if best == "unknown" || f < best {
			best = f
		}
	}
	return best
}

// ---- goroutine census (leak oracle) -------------------------------------------------------

// Goro is one parsed goroutine of a dump.
type Goro struct {
	Header    string
	Top       string // innermost function
	CreatedBy string // function that started it
	CreatedAt string // file:line of the go statement
	Text      string
}

var createdRe = regexp.MustCompile(`(?m)^created by (\S+) in goroutine \d+\n\t(\S+):(\d+)`)

// Census returns the goroutines currently alive that were started by code of the module
// under test (creation site in go-libp2p-kad-dht, not in a monitor file).
func Census() []Goro {
	buf := make([]byte, 1<<22)
	buf = buf[:runtime.Stack(buf, true)]
	var out []Goro
	for _, g := range Goroutines(buf) {
		m := createdRe.FindStringSubmatch(g)
		if m == nil {
			continue
		}
		if m[1] == "sync.(*WaitGroup).Go" {
			// started through wg.Go(f): the owner is f, the outermost frame of the goroutine above Go.func1
			fr := frameRe.FindAllStringSubmatch(g, -1)
			if len(fr) == 0 {
				continue
			}
			last := fr[len(fr)-1]
			m = []string{"", last[1], last[2], last[3]}
		}
		if !strings.HasPrefix(m[1], "github.com/libp2p/go-libp2p-kad-dht") {
			continue
		}
		if strings.Contains(m[2], "zz_verif_") || strings.Contains(m[2], "/internal/verif/") || strings.HasSuffix(m[2], "_test.go") {
			continue
		}
		lines := strings.Split(g, "\n")
		top := ""
		if len(lines) > 1 {
			top = strings.TrimSpace(lines[1])
			if i := strings.LastIndex(top, "("); i > 0 {
				top = top[:i]
			}
		}
		fn := strings.TrimPrefix(strings.TrimPrefix(m[1], "github.com/libp2p/go-libp2p-kad-dht"), "/")
		out = append(out, Goro{Header: lines[0], Top: top, CreatedBy: fn, CreatedAt: shortFile(m[2]) + ":" + m[3], Text: g})
	}
	return out
}

func shortFile(p string) string {
	if i := strings.Index(p, "go-libp2p-kad-dht/"); i >= 0 {
		return p[i+len("go-libp2p-kad-dht/"):]
	}
	if i := strings.Index(p, "/repo/"); i >= 0 {
		return p[i+len("/repo/"):]
	}
	return p
}

// CensusSummary renders a census as "createdBy@file:line xN" lines, sorted.
func CensusSummary(gs []Goro) []string {
	m := map[string]int{}
	for _, g := range gs {
		m[g.CreatedBy+"@"+g.CreatedAt]++
	}
	var out []string
	for k, v := range m {
		out = append(out, fmt.Sprintf("%s x%d", k, v))
	}
	sortStrings(out)
	return out
}

func sortStrings(a []string) {
	for i := 1; i < len(a); i++ {
		for j := i; j > 0 && a[j] < a[j-1]; j-- {
			a[j], a[j-1] = a[j-1], a[j]
		}
	}
}
