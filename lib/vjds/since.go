//go:build verif

package vjds

// EntriesFrom returns a copy of the journal entries with Seq >= n (incremental consumers).
func (j *Journal) EntriesFrom(n int) []Entry {
	j.mu.Lock()
	defer j.mu.Unlock()
	if n < 0 {
		n = 0
	}
	if n >= len(j.entries) {
		return nil
	}
	return append([]Entry(nil), j.entries[n:]...)
}
