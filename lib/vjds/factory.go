//go:build verif

package vjds

// Named-store factory (models a directory of datastores, e.g. the keystore's factory mode)
// and crash-state reconstruction with an explicit survivor policy.

import (
	"sort"
	"sync"

	ds "github.com/ipfs/go-datastore"
)

// Journal entries written by a Factory (Store = name of the datastore).
const (
	OpCreate  = "create"  // datastore opened, created empty when it did not exist
	OpDestroy = "destroy" // datastore removed from disk (modelled as atomic and durable)
)

// Factory hands out named stores that all record into one journal. The content of a store
// survives Close (like files on disk): Create on an existing name returns the same content.
// Destroy removes the content; it is journaled, so that replays know where a store was wiped.
type Factory struct {
	J      *Journal
	mu     sync.Mutex
	stores map[string]*Store
	// Creates / Destroys count successful calls per name.
	Creates, Destroys map[string]int
}

// NewFactory creates a factory whose stores initially hold `initial` (name -> content).
func NewFactory(j *Journal, initial map[string]map[string][]byte) *Factory {
	f := &Factory{J: j, stores: map[string]*Store{}, Creates: map[string]int{}, Destroys: map[string]int{}}
	for name, content := range initial {
		f.stores[name] = FromMap(j, name, content)
	}
	return f
}

func (f *Factory) hook(op, name string) error {
	e := Entry{Op: op, Store: name}
	if h := f.J.Hook; h != nil {
		if err := h(&e); err != nil {
			e.Err = err.Error()
			f.J.add(e)
			return err
		}
	}
	f.J.add(e)
	return nil
}

// Create opens the datastore `name` (signature of keystore.WithDatastoreFactory's create).
func (f *Factory) Create(name string) (ds.Batching, error) {
	if err := f.hook(OpCreate, name); err != nil {
		return nil, err
	}
	f.mu.Lock()
	defer f.mu.Unlock()
	s := f.stores[name]
	if s == nil {
		s = NewNamed(f.J, name)
		f.stores[name] = s
	}
	s.mu.Lock()
	s.closed = false // a fresh handle on the same files
	s.mu.Unlock()
	f.Creates[name]++
	return s, nil
}

// Destroy removes the datastore `name` (signature of WithDatastoreFactory's destroy). A handle
// that is still in use afterwards writes into the void and is flagged AfterClose.
func (f *Factory) Destroy(name string) error {
	if err := f.hook(OpDestroy, name); err != nil {
		return err
	}
	f.mu.Lock()
	defer f.mu.Unlock()
	if s := f.stores[name]; s != nil {
		s.mu.Lock()
		s.closed = true
		s.mu.Unlock()
		delete(f.stores, name)
		f.Destroys[name]++
	}
	return nil
}

// Exists reports whether the datastore currently exists on "disk".
func (f *Factory) Exists(name string) bool {
	f.mu.Lock()
	defer f.mu.Unlock()
	return f.stores[name] != nil
}

// Snapshot returns the current content of a store (nil when it does not exist).
func (f *Factory) Snapshot(name string) map[string][]byte {
	f.mu.Lock()
	s := f.stores[name]
	f.mu.Unlock()
	if s == nil {
		return nil
	}
	return s.Snapshot()
}

// Names lists the existing stores, sorted.
func (f *Factory) Names() []string {
	f.mu.Lock()
	defer f.mu.Unlock()
	var out []string
	for n := range f.stores {
		out = append(out, n)
	}
	sort.Strings(out)
	return out
}

// CoverIndex returns, for every journal entry that is a successful write, the index of the
// first later successful Sync of the same store that covers its key (len(entries) if none; -1
// for entries that are not successful writes). A write i is durable at crash point n (prefix
// length) iff cover[i] < n. A Destroy of the store between the write and the Sync does not
// matter: the write is wiped by the Destroy anyway.
func CoverIndex(entries []Entry) []int {
	cover := make([]int, len(entries))
	type syncAt struct {
		key string
		at  int
	}
	later := map[string][]syncAt{} // store -> distinct sync keys with their earliest later index
	for i := len(entries) - 1; i >= 0; i-- {
		e := entries[i]
		cover[i] = -1
		if e.Err != "" {
			continue
		}
		if e.Op == OpSync {
			l := later[e.Store]
			found := false
			for k := range l {
				if l[k].key == e.Key {
					l[k].at = i
					found = true
				}
			}
			if !found {
				later[e.Store] = append(l, syncAt{e.Key, i})
			}
			continue
		}
		if !e.IsWrite() {
			continue
		}
		best := len(entries)
		for _, s := range later[e.Store] {
			if s.at < best && covered(s.key, e.Key) {
				best = s.at
			}
		}
		cover[i] = best
	}
	return cover
}

// CrashStateFn reconstructs the content of store `name` after a crash that follows the first
// n journal entries under the subset model: writes covered by a later Sync (cover from
// CoverIndex, computed on the same entries) always survive; for every other successful write
// keep(i, e) decides. Destroy entries of the store wipe it. It returns the content, whether
// the store exists at all (it was in `initial`, created or written to, and not destroyed
// since) and the journal indices of the dropped writes.
func CrashStateFn(entries []Entry, n int, name string, initial map[string][]byte, cover []int, keep func(i int, e Entry) bool) (state map[string][]byte, exists bool, dropped []int) {
	state = map[string][]byte{}
	exists = initial != nil
	for k, v := range initial {
		state[k] = v
	}
	for i := 0; i < n && i < len(entries); i++ {
		e := entries[i]
		if e.Store != name || e.Err != "" {
			continue
		}
		switch {
		case e.Op == OpDestroy:
			state = map[string][]byte{}
			exists = false
			dropped = nil
		case e.Op == OpCreate:
			exists = true
		case e.IsWrite():
			exists = true
			if cover[i] < n || keep == nil || keep(i, e) {
				applyWrite(state, e)
			} else {
				dropped = append(dropped, i)
			}
		}
	}
	return state, exists, dropped
}

// Boundaries returns every crash point worth enumerating over all stores of the journal:
// the prefix lengths that end right after a successful write, sync or destroy.
func Boundaries(entries []Entry) []int {
	var out []int
	for i, e := range entries {
		if e.Err == "" && (e.IsWrite() || e.Op == OpSync || e.Op == OpDestroy) {
			out = append(out, i+1)
		}
	}
	return out
}
