//go:build verif

// Package vjds is a journaling, fault-injecting in-memory datastore (ds.Batching).
//
// Every access is recorded with a sequence number; a hook can inject errors, yields or gates
// before an access takes effect; the journal can be replayed to reconstruct the stored state
// at any write boundary, under two crash models:
//
//   - prefix model: the durable state is the effect of a prefix of the journal;
//   - subset model (go-datastore's contract): writes covered by a later Sync(prefix) inside
//     the journal prefix are durable, every other write of the prefix may or may not survive.
//
// Accesses after Close are themselves recorded (fence oracle).
package vjds

import (
	"context"
	"crypto/sha256"
	"errors"
	"fmt"
	"math/rand"
	"strings"
	"sync"

	ds "github.com/ipfs/go-datastore"
	"github.com/ipfs/go-datastore/query"
)

// Kinds of journal entries.
const (
	OpGet     = "get"
	OpHas     = "has"
	OpGetSize = "getsize"
	OpQuery   = "query"
	OpPut     = "put"
	OpDelete  = "delete"
	OpSync    = "sync"
	OpBatch   = "batch"  // Batch() creation
	OpCommit  = "commit" // Batch.Commit (followed by its put/delete entries, same BatchID)
	OpClose   = "close"
)

// Entry is one recorded access.
type Entry struct {
	Seq        int
	Op         string
	Key        string // datastore key (query: prefix)
	Value      []byte // put: value written (copied)
	BatchID    int    // >0 for writes that were part of a batch commit
	Role       string // role found in the context (WithRole), if any
	Err        string // error returned to the caller (injected or real)
	AfterClose bool   // access happened after Close returned
	Store      string // name of the store (factory mode)
}

func (e Entry) IsWrite() bool { return e.Op == OpPut || e.Op == OpDelete }

// ValueHash returns a short hash of the value, for logs.
func (e Entry) ValueHash() string {
	h := sha256.Sum256(e.Value)
	return fmt.Sprintf("%x", h[:4])
}

func (e Entry) String() string {
	s := fmt.Sprintf("#%d %s %s", e.Seq, e.Op, e.Key)
	if e.Op == OpPut {
		s += " v=" + e.ValueHash()
	}
	if e.BatchID > 0 {
		s += fmt.Sprintf(" batch=%d", e.BatchID)
	}
	if e.Err != "" {
		s += " err=" + e.Err
	}
	if e.AfterClose {
		s += " AFTER-CLOSE"
	}
	return s
}

type roleKey struct{}

// WithRole tags a context; accesses made with it carry the role in the journal.
func WithRole(ctx context.Context, role string) context.Context {
	return context.WithValue(ctx, roleKey{}, role)
}

// Journal is shared by all stores created from it (one total order of accesses).
type Journal struct {
	mu      sync.Mutex
	entries []Entry
	batches int
	// Hook, if set, runs before an access takes effect, outside every lock of the store. A
	// non-nil error is returned to the caller instead of performing the access (for a
	// batch commit: nothing of the batch is applied). The entry is not yet in the journal.
	Hook func(e *Entry) error
	// CtxHook, if set, runs after Hook with the caller's context (e.g. to model a store that hangs until the
	// caller gives up). Same contract as Hook.
	CtxHook func(ctx context.Context, e *Entry) error
}

func NewJournal() *Journal { return &Journal{} }

// Entries returns a copy of the journal.
func (j *Journal) Entries() []Entry {
	j.mu.Lock()
	defer j.mu.Unlock()
	return append([]Entry(nil), j.entries...)
}

// Len returns the number of recorded entries.
func (j *Journal) Len() int {
	j.mu.Lock()
	defer j.mu.Unlock()
	return len(j.entries)
}

func (j *Journal) add(e Entry) int {
	j.mu.Lock()
	defer j.mu.Unlock()
	e.Seq = len(j.entries)
	j.entries = append(j.entries, e)
	return e.Seq
}

func (j *Journal) nextBatch() int {
	j.mu.Lock()
	defer j.mu.Unlock()
	j.batches++
	return j.batches
}

// Store is a journaling ds.Batching over a map.
type Store struct {
	// LiveQuery: Query results are iterated live (see Query). Set before use.
	LiveQuery bool
	J      *Journal
	Name   string
	mu     sync.RWMutex
	inner  *ds.MapDatastore
	closed bool
}

var _ ds.Batching = (*Store)(nil)

// New creates a store with its own journal.
func New() *Store { return NewNamed(NewJournal(), "") }

// NewNamed creates a store recording into j under the given name.
func NewNamed(j *Journal, name string) *Store {
	return &Store{J: j, Name: name, inner: ds.NewMapDatastore()}
}

// FromMap creates a store pre-filled with content (e.g. a reconstructed crash state).
func FromMap(j *Journal, name string, content map[string][]byte) *Store {
	s := NewNamed(j, name)
	for k, v := range content {
		s.inner.Put(context.Background(), ds.NewKey(k), append([]byte(nil), v...))
	}
	return s
}

func role(ctx context.Context) string {
	if ctx == nil {
		return ""
	}
	r, _ := ctx.Value(roleKey{}).(string)
	return r
}

// pre runs the hook and decides whether the access proceeds.
func (s *Store) pre(ctx context.Context, op, key string, val []byte, batch int) (Entry, error) {
	s.mu.RLock()
	closed := s.closed
	s.mu.RUnlock()
	e := Entry{Op: op, Key: key, BatchID: batch, Role: role(ctx), AfterClose: closed, Store: s.Name}
	if val != nil {
		e.Value = append([]byte(nil), val...)
	}
	if h := s.J.Hook; h != nil {
		if err := h(&e); err != nil {
			e.Err = err.Error()
			s.J.add(e)
			return e, err
		}
	}
	if h := s.J.CtxHook; h != nil {
		if err := h(ctx, &e); err != nil {
			e.Err = err.Error()
			s.J.add(e)
			return e, err
		}
	}
	return e, nil
}

func (s *Store) post(e Entry, err error) {
	if err != nil {
		e.Err = err.Error()
	}
	s.J.add(e)
}

func (s *Store) Get(ctx context.Context, key ds.Key) ([]byte, error) {
	e, err := s.pre(ctx, OpGet, key.String(), nil, 0)
	if err != nil {
		return nil, err
	}
	s.mu.RLock()
	v, err := s.inner.Get(ctx, key)
	s.mu.RUnlock()
	if err == nil {
		v = append([]byte(nil), v...)
	}
	s.post(e, err)
	return v, err
}

func (s *Store) Has(ctx context.Context, key ds.Key) (bool, error) {
	e, err := s.pre(ctx, OpHas, key.String(), nil, 0)
	if err != nil {
		return false, err
	}
	s.mu.RLock()
	ok, err := s.inner.Has(ctx, key)
	s.mu.RUnlock()
	s.post(e, err)
	return ok, err
}

func (s *Store) GetSize(ctx context.Context, key ds.Key) (int, error) {
	e, err := s.pre(ctx, OpGetSize, key.String(), nil, 0)
	if err != nil {
		return -1, err
	}
	s.mu.RLock()
	n, err := s.inner.GetSize(ctx, key)
	s.mu.RUnlock()
	s.post(e, err)
	return n, err
}

func (s *Store) Query(ctx context.Context, q query.Query) (query.Results, error) {
	e, err := s.pre(ctx, OpQuery, q.Prefix, nil, 0)
	if err != nil {
		return nil, err
	}
	// snapshot semantics: results are materialised under the lock
	s.mu.RLock()
	res, err := s.inner.Query(ctx, q)
	var all []query.Entry
	if err == nil {
		all, err = res.Rest()
	}
	s.mu.RUnlock()
	s.post(e, err)
	if err != nil {
		return nil, err
	}
	for i := range all {
		if all[i].Value != nil {
			all[i].Value = append([]byte(nil), all[i].Value...)
		}
	}
	if s.LiveQuery && !q.KeysOnly {
		// live iteration (a store that walks its files): the keys are those present when Query was called, each value
		// is read when the iterator reaches it; an entry deleted meanwhile is skipped
		idx := 0
		return query.ResultsFromIterator(q, query.Iterator{Next: func() (query.Result, bool) {
			for idx < len(all) {
				en := all[idx]
				idx++
				s.mu.RLock()
				cur, gerr := s.inner.Get(ctx, ds.NewKey(en.Key))
				s.mu.RUnlock()
				if gerr != nil {
					continue
				}
				en.Value = append([]byte(nil), cur...)
				en.Size = len(cur)
				return query.Result{Entry: en}, true
			}
			return query.Result{}, false
		}}), nil
	}
	return query.ResultsWithEntries(q, all), nil
}

func (s *Store) Put(ctx context.Context, key ds.Key, value []byte) error {
	e, err := s.pre(ctx, OpPut, key.String(), value, 0)
	if err != nil {
		return err
	}
	s.mu.Lock()
	err = s.inner.Put(ctx, key, append([]byte(nil), value...))
	s.post(e, err) // journaled under the lock: journal order = effect order
	s.mu.Unlock()
	return err
}

func (s *Store) Delete(ctx context.Context, key ds.Key) error {
	e, err := s.pre(ctx, OpDelete, key.String(), nil, 0)
	if err != nil {
		return err
	}
	s.mu.Lock()
	err = s.inner.Delete(ctx, key)
	s.post(e, err)
	s.mu.Unlock()
	return err
}

func (s *Store) Sync(ctx context.Context, prefix ds.Key) error {
	e, err := s.pre(ctx, OpSync, prefix.String(), nil, 0)
	if err != nil {
		return err
	}
	s.mu.Lock()
	s.post(e, nil)
	s.mu.Unlock()
	return nil
}

func (s *Store) Close() error {
	e, err := s.pre(context.Background(), OpClose, "", nil, 0)
	if err != nil {
		return err
	}
	s.mu.Lock()
	s.closed = true
	s.post(e, nil)
	s.mu.Unlock()
	return nil
}

// Closed reports whether Close was called.
func (s *Store) Closed() bool {
	s.mu.RLock()
	defer s.mu.RUnlock()
	return s.closed
}

// Snapshot returns the current content.
func (s *Store) Snapshot() map[string][]byte {
	s.mu.RLock()
	defer s.mu.RUnlock()
	out := map[string][]byte{}
	res, _ := s.inner.Query(context.Background(), query.Query{})
	all, _ := res.Rest()
	for _, e := range all {
		out[e.Key] = append([]byte(nil), e.Value...)
	}
	return out
}

type batchOp struct {
	del bool
	key ds.Key
	val []byte
}

type batch struct {
	s   *Store
	id  int
	mu  sync.Mutex
	ops []batchOp
}

func (s *Store) Batch(ctx context.Context) (ds.Batch, error) {
	id := s.J.nextBatch()
	e, err := s.pre(ctx, OpBatch, "", nil, id)
	if err != nil {
		return nil, err
	}
	s.post(e, nil)
	return &batch{s: s, id: id}, nil
}

func (b *batch) Put(ctx context.Context, key ds.Key, value []byte) error {
	b.mu.Lock()
	b.ops = append(b.ops, batchOp{key: key, val: append([]byte(nil), value...)})
	b.mu.Unlock()
	return nil
}

func (b *batch) Delete(ctx context.Context, key ds.Key) error {
	b.mu.Lock()
	b.ops = append(b.ops, batchOp{del: true, key: key})
	b.mu.Unlock()
	return nil
}

func (b *batch) Commit(ctx context.Context) error {
	e, err := b.s.pre(ctx, OpCommit, "", nil, b.id)
	if err != nil {
		return err
	}
	b.mu.Lock()
	ops := b.ops
	b.ops = nil
	b.mu.Unlock()
	b.s.mu.Lock()
	defer b.s.mu.Unlock()
	b.s.post(e, nil)
	for _, op := range ops {
		we := Entry{Op: OpPut, Key: op.key.String(), Value: op.val, BatchID: b.id, Role: e.Role, AfterClose: e.AfterClose, Store: b.s.Name}
		if op.del {
			we.Op, we.Value = OpDelete, nil
			b.s.inner.Delete(ctx, op.key)
		} else {
			b.s.inner.Put(ctx, op.key, append([]byte(nil), op.val...))
		}
		b.s.J.add(we)
	}
	return nil
}

// ---- journal replay ------------------------------------------------------------------------

func applyWrite(state map[string][]byte, e Entry) {
	if e.Err != "" {
		return
	}
	switch e.Op {
	case OpPut:
		state[e.Key] = e.Value
	case OpDelete:
		delete(state, e.Key)
	}
}

func covered(syncPrefix, key string) bool {
	if syncPrefix == "/" || syncPrefix == "" {
		return true
	}
	return key == syncPrefix || strings.HasPrefix(key, strings.TrimSuffix(syncPrefix, "/")+"/")
}

// StateAt returns the content of store `name` after the first n journal entries
// (prefix crash model), starting from `initial` (may be nil).
func StateAt(entries []Entry, n int, name string, initial map[string][]byte) map[string][]byte {
	state := map[string][]byte{}
	for k, v := range initial {
		state[k] = v
	}
	for _, e := range entries[:n] {
		if e.Store == name && e.IsWrite() {
			applyWrite(state, e)
		}
	}
	return state
}

// Durable reports for every write among the first n entries of store `name` whether a later
// Sync (before n) covers it.
func Durable(entries []Entry, n int, name string) map[int]bool {
	out := map[int]bool{}
	for i := 0; i < n; i++ {
		e := entries[i]
		if e.Store != name || !e.IsWrite() || e.Err != "" {
			continue
		}
		for j := i + 1; j < n; j++ {
			s := entries[j]
			if s.Store == name && s.Op == OpSync && s.Err == "" && covered(s.Key, e.Key) {
				out[i] = true
				break
			}
		}
	}
	return out
}

// CrashState returns one state allowed by the subset model after a crash following the
// first n entries: durable writes always applied, each non-durable write kept with
// probability keep (in journal order, so a kept later write overrides earlier ones).
// With keep == 1 this is StateAt; with keep == 0 only synced writes survive.
func CrashState(entries []Entry, n int, name string, initial map[string][]byte, r *rand.Rand, keep float64) (map[string][]byte, int) {
	dur := Durable(entries, n, name)
	state := map[string][]byte{}
	for k, v := range initial {
		state[k] = v
	}
	dropped := 0
	for i := 0; i < n; i++ {
		e := entries[i]
		if e.Store != name || !e.IsWrite() || e.Err != "" {
			continue
		}
		if dur[i] || keep >= 1 || (keep > 0 && r.Float64() < keep) {
			applyWrite(state, e)
		} else {
			dropped++
		}
	}
	return state, dropped
}

// WriteBoundaries returns the journal indices n (1-based prefix lengths) that end right
// after a write or sync of the named store — the crash points worth enumerating.
func WriteBoundaries(entries []Entry, name string) []int {
	var out []int
	for i, e := range entries {
		if e.Store == name && (e.IsWrite() || e.Op == OpSync) {
			out = append(out, i+1)
		}
	}
	return out
}

// AfterCloseAccesses returns the entries recorded after Close returned.
func AfterCloseAccesses(entries []Entry) []Entry {
	var out []Entry
	for _, e := range entries {
		if e.AfterClose && e.Op != OpClose {
			out = append(out, e)
		}
	}
	return out
}

// ErrInjected is the default injected error.
var ErrInjected = errors.New("vjds: injected datastore error")

// FailNth returns a hook that fails the n-th (0-based) access matching pred, once.
func FailNth(n int, pred func(e *Entry) bool) func(e *Entry) error {
	var mu sync.Mutex
	seen := 0
	return func(e *Entry) error {
		if pred != nil && !pred(e) {
			return nil
		}
		mu.Lock()
		defer mu.Unlock()
		seen++
		if seen-1 == n {
			return ErrInjected
		}
		return nil
	}
}
