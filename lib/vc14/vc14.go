//go:build verif

// Package vc14 holds the instruments shared by the C14 monitors (Close stops everything;
// failed constructors leave nothing): an ownership census that also sees goroutines started
// through sync.WaitGroup.Go, a subscription-counting event bus, and the boundary-event
// counter used to enumerate Close instants.
//
// It must not import the root dht package (in-package root monitors import it).
package vc14

import (
	"errors"
	"fmt"
	"reflect"
	"regexp"
	"runtime"
	"sort"
	"strings"
	"sync"
	"sync/atomic"
	"time"

	"github.com/libp2p/go-libp2p/core/event"

	"github.com/libp2p/go-libp2p-kad-dht/internal/verif/vh"
)

const module = "github.com/libp2p/go-libp2p-kad-dht"

// ---- census ----------------------------------------------------------------------------------

var (
	createdRe = regexp.MustCompile(`(?m)^created by (\S+) in goroutine \d+\n\t(\S+):(\d+)`)
	// function name = everything before the last parenthesised argument list of the line
	frameRe = regexp.MustCompile(`(?m)^([^\s].*)\([^()\n]*\)\n\t(\S+):(\d+)`)
)

func monitorFile(file string) bool {
	return strings.Contains(file, "zz_verif_") || strings.Contains(file, "/internal/verif/") || strings.HasSuffix(file, "_test.go")
}

func short(fn string) string {
	return strings.TrimPrefix(strings.TrimPrefix(strings.TrimPrefix(fn, module), "/"), ".")
}

func shortFile(p string) string {
	if i := strings.Index(p, "go-libp2p-kad-dht/"); i >= 0 {
		return p[i+len("go-libp2p-kad-dht/"):]
	}
	if i := strings.Index(p, "/repo/"); i >= 0 {
		return p[i+len("/repo/"):]
	}
	return p
}

// Owned returns the goroutines currently alive that were started by code of the module under
// test: the go statement is in a go-libp2p-kad-dht source file (not a monitor file), or the
// goroutine was started by sync.(*WaitGroup).Go with a function of the module (the frame right
// above WaitGroup.Go.func1). vh.Census only sees the first kind; IpfsDHT starts its four
// background loops through WaitGroup.Go.
func Owned() []vh.Goro {
	buf := make([]byte, 1<<22)
	buf = buf[:runtime.Stack(buf, true)]
	var out []vh.Goro
	for _, g := range vh.Goroutines(buf) {
		m := createdRe.FindStringSubmatch(g)
		if m == nil {
			continue
		}
		by, at := m[1], ""
		switch {
		case strings.HasPrefix(m[1], module) && !monitorFile(m[2]):
			by, at = short(m[1]), shortFile(m[2])+":"+m[3]
		case m[1] == "sync.(*WaitGroup).Go":
			// frames are listed innermost first; the one before "sync.(*WaitGroup).Go.func1" is the function passed to Go
			fr := frameRe.FindAllStringSubmatch(g, -1)
			idx := -1
			for i, f := range fr {
				if f[1] == "sync.(*WaitGroup).Go.func1" {
					idx = i
				}
			}
			if idx < 1 {
				continue
			}
			f := fr[idx-1]
			if !strings.HasPrefix(f[1], module) || monitorFile(f[2]) {
				continue
			}
			by, at = "WaitGroup.Go:"+short(f[1]), shortFile(f[2])+":"+f[3]
		default:
			continue
		}
		lines := strings.Split(g, "\n")
		top := ""
		if len(lines) > 1 {
			top = strings.TrimSpace(lines[1])
			if i := strings.LastIndex(top, "("); i > 0 {
				top = top[:i]
			}
		}
		out = append(out, vh.Goro{Header: lines[0], Top: top, CreatedBy: by, CreatedAt: at, Text: g})
	}
	return out
}

// Summary renders a census as sorted "createdBy@file:line xN" lines.
func Summary(gs []vh.Goro) []string {
	m := map[string]int{}
	for _, g := range gs {
		m[g.CreatedBy+"@"+g.CreatedAt]++
	}
	var out []string
	for k, v := range m {
		out = append(out, fmt.Sprintf("%s x%d", k, v))
	}
	sort.Strings(out)
	return out
}

// WithFrame keeps the goroutines whose stack mentions one of the given function-name
// fragments (e.g. "(*IpfsDHT).rtPeerLoop", "(*ProviderManager).gcLoop").
func WithFrame(gs []vh.Goro, frags ...string) []vh.Goro {
	var out []vh.Goro
	for _, g := range gs {
		for _, f := range frags {
			if strings.Contains(g.Text, f) {
				out = append(out, g)
				break
			}
		}
	}
	return out
}

// Dump renders the stacks of a census (bounded) for witnesses.
func Dump(gs []vh.Goro, max int) string {
	var sb strings.Builder
	for i, g := range gs {
		if i >= max {
			fmt.Fprintf(&sb, "… %d more\n", len(gs)-max)
			break
		}
		t := g.Text
		if len(t) > 1800 {
			t = t[:1800] + "…"
		}
		sb.WriteString(t)
		sb.WriteString("\n\n")
	}
	return sb.String()
}

// OnStack reports which of the given function-name fragments appears on the calling
// goroutine's stack ("" if none). Used by hooks at a boundary to attribute an access to a
// background loop of the code under test (e.g. the provider GC) without tagging contexts.
func OnStack(frags ...string) string {
	var pcs [64]uintptr
	n := runtime.Callers(2, pcs[:])
	fr := runtime.CallersFrames(pcs[:n])
	for {
		f, more := fr.Next()
		for _, x := range frags {
			if strings.Contains(f.Function, x) {
				return x
			}
		}
		if !more {
			break
		}
	}
	return ""
}

// ---- counting event bus ------------------------------------------------------------------------

// Bus wraps an event.Bus, counts live subscriptions and can make Subscribe fail.
type Bus struct {
	Inner event.Bus
	// FailSubscribe makes the n-th Subscribe call from now (0-based) fail; <0: never.
	failAt atomic.Int64
	calls  atomic.Int64
	live   atomic.Int64
	total  atomic.Int64
}

// ErrSubscribe is the injected Subscribe failure.
var ErrSubscribe = errors.New("vc14: injected EventBus Subscribe failure")

func NewBus(inner event.Bus) *Bus {
	b := &Bus{Inner: inner}
	b.failAt.Store(-1)
	return b
}

// FailSubscribeAt makes the n-th Subscribe call counted from now fail (n = 0: the next one).
func (b *Bus) FailSubscribeAt(n int) { b.failAt.Store(b.calls.Load() + int64(n)) }

// Live is the number of subscriptions handed out and not yet closed.
func (b *Bus) Live() int { return int(b.live.Load()) }

// Total is the number of successful Subscribe calls.
func (b *Bus) Total() int { return int(b.total.Load()) }

type sub struct {
	event.Subscription
	b    *Bus
	once sync.Once
}

func (s *sub) Close() error {
	s.once.Do(func() { s.b.live.Add(-1) })
	return s.Subscription.Close()
}

func (b *Bus) Subscribe(eventType any, opts ...event.SubscriptionOpt) (event.Subscription, error) {
	n := b.calls.Add(1) - 1
	if n == b.failAt.Load() {
		return nil, ErrSubscribe
	}
	s, err := b.Inner.Subscribe(eventType, opts...)
	if err != nil {
		return nil, err
	}
	b.live.Add(1)
	b.total.Add(1)
	return &sub{Subscription: s, b: b}, nil
}

func (b *Bus) Emitter(eventType any, opts ...event.EmitterOpt) (event.Emitter, error) {
	return b.Inner.Emitter(eventType, opts...)
}

func (b *Bus) GetAllEventTypes() []reflect.Type { return b.Inner.GetAllEventTypes() }

// ---- boundary events ---------------------------------------------------------------------------

// Ev is one boundary event of a scenario run.
type Ev struct {
	Idx   int
	VT    time.Duration // since Boundary creation
	Kind  string        // req | rep | dial | dialend | ds | disc | emit | …
	Owner string        // background loop on whose stack the event happened ("" = an operation)
	Label string
}

// Boundary counts the boundary events of a run (sim log entries, dial events, datastore
// journal entries, …), remembers them, and fires a trigger when the count reaches a target:
// the reference run records, the identically seeded re-runs Close at event #i.
type Boundary struct {
	base   time.Time
	mu     sync.Mutex
	evs    []Ev
	target int // fire when len(evs) reaches target (1-based index of the event); 0 = never
	fired  bool
	Fire   chan struct{} // closed when the target event happens
	Frags  []string      // loop fragments looked up on the stack for Owner
}

// NewBoundary creates a counter; target = 1-based index of the event at which Fire closes
// (0: never fires by count).
func NewBoundary(target int, loopFrags ...string) *Boundary {
	return &Boundary{base: time.Now(), target: target, Fire: make(chan struct{}), Frags: loopFrags}
}

// Tick records a boundary event happening on the calling goroutine (call it at the boundary,
// outside any lock of the instrument).
func (b *Boundary) Tick(kind, label string) {
	owner := ""
	if len(b.Frags) > 0 {
		owner = OnStack(b.Frags...)
	}
	b.mu.Lock()
	b.evs = append(b.evs, Ev{Idx: len(b.evs) + 1, VT: time.Since(b.base), Kind: kind, Owner: owner, Label: label})
	fire := !b.fired && b.target > 0 && len(b.evs) >= b.target
	if fire {
		b.fired = true
	}
	b.mu.Unlock()
	if fire {
		close(b.Fire)
	}
}

// FireNow fires the trigger unless it already fired; reports whether this call fired it.
func (b *Boundary) FireNow() bool {
	b.mu.Lock()
	fire := !b.fired
	b.fired = true
	b.mu.Unlock()
	if fire {
		close(b.Fire)
	}
	return fire
}

// Fired reports whether the trigger has fired.
func (b *Boundary) Fired() bool {
	b.mu.Lock()
	defer b.mu.Unlock()
	return b.fired
}

// Events returns a copy of the recorded events.
func (b *Boundary) Events() []Ev {
	b.mu.Lock()
	defer b.mu.Unlock()
	return append([]Ev(nil), b.evs...)
}

// Len is the number of events recorded so far.
func (b *Boundary) Len() int {
	b.mu.Lock()
	defer b.mu.Unlock()
	return len(b.evs)
}

// Since is the virtual time elapsed since the counter was created.
func (b *Boundary) Since() time.Duration { return time.Since(b.base) }

// PickIndices chooses the Close instants of a case from the reference run: always 0
// (immediately after construction) and m+1 (after everything finished), up to nOwned events
// that happened on a background loop's stack, and nAny others — or every index when all is
// set (thorough tier, small scenarios; capped at cap by even spacing plus the owned ones).
func PickIndices(r interface{ Intn(int) int }, ref []Ev, nOwned, nAny int, all bool, cap int) []int {
	m := len(ref)
	set := map[int]bool{0: true, m + 1: true}
	var owned []int
	for _, e := range ref {
		if e.Owner != "" {
			owned = append(owned, e.Idx)
		}
	}
	if all {
		if m+2 <= cap {
			for i := 1; i <= m; i++ {
				set[i] = true
			}
		} else {
			for _, i := range owned {
				if len(set) < cap/2 {
					set[i] = true
				}
			}
			for k := 0; len(set) < cap && k < 4*cap; k++ {
				set[1+r.Intn(m)] = true
			}
		}
	} else {
		for k := 0; k < nOwned && len(owned) > 0; k++ {
			set[owned[r.Intn(len(owned))]] = true
		}
		for k := 0; k < nAny && m > 0; k++ {
			set[1+r.Intn(m)] = true
		}
	}
	var out []int
	for i := range set {
		out = append(out, i)
	}
	sort.Ints(out)
	return out
}
