//go:build verif

package vsim

import (
	"errors"
	"fmt"
	"io"
	"os"
	"sync"
	"sync/atomic"
	"time"

	"github.com/libp2p/go-libp2p/core/network"
	"github.com/libp2p/go-libp2p/core/protocol"
	"github.com/libp2p/go-msgio"
	"google.golang.org/protobuf/proto"
)

// ErrReset is returned by reads and writes on a reset stream (same text as libp2p's).
var ErrReset = network.ErrReset

// pipe is one direction of a stream: an unbounded byte queue with close/reset.
type pipe struct {
	mu       sync.Mutex
	cond     *sync.Cond
	buf      []byte
	closed   bool // writer closed: reader gets EOF after draining
	reset    bool
	deadline time.Time
	dlTimer  *time.Timer
	written  int64
}

func newPipe() *pipe {
	p := &pipe{}
	p.cond = sync.NewCond(&p.mu)
	return p
}

func (p *pipe) write(b []byte) (int, error) {
	p.mu.Lock()
	defer p.mu.Unlock()
	if p.reset {
		return 0, ErrReset
	}
	if p.closed {
		return 0, errors.New("write on closed stream")
	}
	p.buf = append(p.buf, b...)
	p.written += int64(len(b))
	p.cond.Broadcast()
	return len(b), nil
}

func (p *pipe) read(b []byte) (int, error) {
	p.mu.Lock()
	defer p.mu.Unlock()
	for {
		if p.reset {
			return 0, ErrReset
		}
		if len(p.buf) > 0 {
			n := copy(b, p.buf)
			p.buf = p.buf[n:]
			return n, nil
		}
		if p.closed {
			return 0, io.EOF
		}
		if !p.deadline.IsZero() && !time.Now().Before(p.deadline) {
			return 0, os.ErrDeadlineExceeded
		}
		p.cond.Wait()
	}
}

func (p *pipe) setDeadline(t time.Time) {
	p.mu.Lock()
	defer p.mu.Unlock()
	p.deadline = t
	if p.dlTimer != nil {
		p.dlTimer.Stop()
		p.dlTimer = nil
	}
	if !t.IsZero() {
		p.dlTimer = time.AfterFunc(time.Until(t), func() {
			p.mu.Lock()
			p.cond.Broadcast()
			p.mu.Unlock()
		})
	}
}

func (p *pipe) closeWrite() {
	p.mu.Lock()
	p.closed = true
	p.cond.Broadcast()
	p.mu.Unlock()
}

func (p *pipe) doReset() {
	p.mu.Lock()
	p.reset = true
	p.buf = nil
	if p.dlTimer != nil {
		p.dlTimer.Stop()
		p.dlTimer = nil
	}
	p.cond.Broadcast()
	p.mu.Unlock()
}

var streamSeq atomic.Int64

// Stream is the local end of a fake stream: the network.Stream handed to the code under test.
type Stream struct {
	id    string
	conn  *Conn
	dir   network.Direction
	in    *pipe // remote -> local
	out   *pipe // local -> remote
	mu    sync.Mutex
	proto protocol.ID

	// counters observed by monitors
	Resets, Closes   atomic.Int32
	WritesAfterReset atomic.Int32
	closedLocal      atomic.Bool
	opened           time.Time
}

var _ network.Stream = (*Stream)(nil)

// End is the remote end of a fake stream, played by the monitor (or a simulated peer).
type End struct {
	S      *Stream
	reader msgio.ReadCloser
	rmu    sync.Mutex
}

func newStreamPair(c *Conn, dir network.Direction, proto protocol.ID) (*Stream, *End) {
	s := &Stream{id: fmt.Sprintf("s%d", streamSeq.Add(1)), conn: c, dir: dir, in: newPipe(), out: newPipe(), proto: proto, opened: time.Now()}
	c.attach(s)
	return s, &End{S: s}
}

func (s *Stream) Read(b []byte) (int, error) { return s.in.read(b) }

func (s *Stream) Write(b []byte) (int, error) {
	n, err := s.out.write(b)
	if err != nil && s.Resets.Load() > 0 {
		s.WritesAfterReset.Add(1)
	}
	return n, err
}

// Close closes the stream for writing and reading on the local side (the remote end
// reads EOF after draining).
func (s *Stream) Close() error {
	s.Closes.Add(1)
	s.closedLocal.Store(true)
	s.out.closeWrite()
	return nil
}
func (s *Stream) CloseWrite() error { s.out.closeWrite(); return nil }
func (s *Stream) CloseRead() error  { return nil }

// Reset aborts both directions.
func (s *Stream) Reset() error {
	s.Resets.Add(1)
	s.in.doReset()
	s.out.doReset()
	return nil
}
func (s *Stream) ResetWithError(network.StreamErrorCode) error { return s.Reset() }
func (s *Stream) SetDeadline(t time.Time) error {
	s.in.setDeadline(t)
	return nil
}
func (s *Stream) SetReadDeadline(t time.Time) error {
	s.in.setDeadline(t)
	return nil
}
func (s *Stream) SetWriteDeadline(time.Time) error { return nil }
func (s *Stream) ID() string                       { return s.id }
func (s *Stream) Protocol() protocol.ID {
	s.mu.Lock()
	defer s.mu.Unlock()
	return s.proto
}
func (s *Stream) SetProtocol(id protocol.ID) error {
	s.mu.Lock()
	s.proto = id
	s.mu.Unlock()
	return nil
}
func (s *Stream) Stat() network.Stats         { return network.Stats{Direction: s.dir, Opened: s.opened} }
func (s *Stream) Conn() network.Conn          { return s.conn }
func (s *Stream) Scope() network.StreamScope  { return &network.NullScope{} }

// Dead reports whether the stream was reset or closed locally (no longer listed by its conn).
func (s *Stream) Dead() bool { return s.Resets.Load() > 0 || s.closedLocal.Load() }

// WasReset reports whether either side reset the stream.
func (s *Stream) WasReset() bool {
	s.in.mu.Lock()
	defer s.in.mu.Unlock()
	return s.in.reset
}

// BytesToRemote is the number of bytes the local side wrote.
func (s *Stream) BytesToRemote() int64 {
	s.out.mu.Lock()
	defer s.out.mu.Unlock()
	return s.out.written
}

// ---- remote end --------------------------------------------------------------------------

// Write sends raw bytes to the local side.
func (e *End) Write(b []byte) (int, error) { return e.S.in.write(b) }

// Read reads raw bytes written by the local side.
func (e *End) Read(b []byte) (int, error) { return e.S.out.read(b) }

// Close closes the remote's write direction (the local side reads EOF after draining).
func (e *End) Close() error { e.S.in.closeWrite(); return nil }

// Reset aborts the stream from the remote side.
func (e *End) Reset() {
	e.S.in.doReset()
	e.S.out.doReset()
}

// SetReadDeadline bounds reads of the remote end (virtual time inside a bubble).
func (e *End) SetReadDeadline(t time.Time) { e.S.out.setDeadline(t) }

// WriteFrame writes one length-prefixed frame (uvarint length + payload).
func (e *End) WriteFrame(payload []byte) error {
	var hdr [10]byte
	n := putUvarint(hdr[:], uint64(len(payload)))
	_, err := e.Write(append(hdr[:n:n], payload...))
	return err
}

// WriteMsg marshals and writes a protobuf message as one frame.
func (e *End) WriteMsg(m proto.Message) error {
	b, err := proto.Marshal(m)
	if err != nil {
		return err
	}
	return e.WriteFrame(b)
}

// ReadFrame reads one length-prefixed frame written by the local side (blocks).
func (e *End) ReadFrame() ([]byte, error) {
	e.rmu.Lock()
	defer e.rmu.Unlock()
	if e.reader == nil {
		e.reader = msgio.NewVarintReaderSize(endReader{e}, 64<<20)
	}
	b, err := e.reader.ReadMsg()
	if err != nil {
		return nil, err
	}
	out := append([]byte(nil), b...)
	e.reader.ReleaseMsg(b)
	return out, nil
}

// ReadMsg reads one frame and unmarshals it into m.
func (e *End) ReadMsg(m proto.Message) error {
	b, err := e.ReadFrame()
	if err != nil {
		return err
	}
	return proto.Unmarshal(b, m)
}

type endReader struct{ e *End }

func (r endReader) Read(b []byte) (int, error) { return r.e.Read(b) }

func putUvarint(buf []byte, x uint64) int {
	i := 0
	for x >= 0x80 {
		buf[i] = byte(x) | 0x80
		x >>= 7
		i++
	}
	buf[i] = byte(x)
	return i + 1
}
