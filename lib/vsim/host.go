//go:build verif

// Package vsim provides simulated peers behind the real libp2p interfaces used by kad-dht:
// a fake host.Host / network.Network / network.Conn / network.Stream and a simulated
// pb.MessageSender serving a scripted network of peers. Everything is thread-safe and
// bubble-friendly (blocking happens on channels and sync.Cond only).
package vsim

import (
	"context"
	"errors"
	"fmt"
	"sort"
	"sync"
	"sync/atomic"
	"time"

	"github.com/libp2p/go-libp2p/core/connmgr"
	ic "github.com/libp2p/go-libp2p/core/crypto"
	"github.com/libp2p/go-libp2p/core/event"
	"github.com/libp2p/go-libp2p/core/host"
	"github.com/libp2p/go-libp2p/core/network"
	"github.com/libp2p/go-libp2p/core/peer"
	"github.com/libp2p/go-libp2p/core/peerstore"
	"github.com/libp2p/go-libp2p/core/protocol"
	"github.com/libp2p/go-libp2p/p2p/host/eventbus"
	"github.com/libp2p/go-libp2p/p2p/host/peerstore/pstoremem"
	ma "github.com/multiformats/go-multiaddr"
)

// HandlerEvent records a SetStreamHandler / RemoveStreamHandler call.
type HandlerEvent struct {
	Seq   int64
	Set   bool
	Proto protocol.ID
}

// DialEvent records a Connect / DialPeer attempt and its outcome.
type DialEvent struct {
	Seq, EndSeq int64
	Peer        peer.ID
	Start, End  time.Time
	Err         string
	CtxErr      string // ctx.Err() when the attempt returned
}

// Host is a fake host.Host.
type Host struct {
	id  peer.ID
	ps  peerstore.Peerstore
	bus event.Bus
	Net *Network

	mu        sync.Mutex
	addrs     []ma.Multiaddr
	handlers  map[protocol.ID]network.StreamHandler
	HandlerLg []HandlerEvent
	Dials     []DialEvent
	closed    bool

	// Seq is the single sequence source shared with the Sim log (one total order).
	Seq *atomic.Int64

	// DialFn decides the outcome of dialing a peer that is not connected (nil: success).
	// It may block (virtual sleep) and must honour ctx.
	DialFn func(ctx context.Context, p peer.ID) error
	// StreamFn serves host.NewStream (used by the real message sender); nil: error.
	StreamFn func(ctx context.Context, p peer.ID, protos []protocol.ID) (network.Stream, error)
	// SubscribeErr, if set, makes EventBus().Subscribe fail (constructor-failure tests).
	BusOverride event.Bus
	// RemoteAddrFn gives the remote multiaddr of a new connection to p (nil: none).
	RemoteAddrFn func(p peer.ID) ma.Multiaddr
}

var _ host.Host = (*Host)(nil)

// NewHost creates a fake host with a real in-memory peerstore and event bus.
func NewHost(id peer.ID, addrs ...ma.Multiaddr) *Host {
	ps, err := pstoremem.NewPeerstore()
	if err != nil {
		panic(err)
	}
	h := &Host{id: id, ps: ps, bus: eventbus.NewBus(), addrs: addrs, handlers: map[protocol.ID]network.StreamHandler{}, Seq: new(atomic.Int64)}
	h.Net = &Network{h: h, conns: map[peer.ID]*Conn{}}
	return h
}

func (h *Host) ID() peer.ID                      { return h.id }
func (h *Host) Peerstore() peerstore.Peerstore   { return h.ps }
func (h *Host) Network() network.Network         { return h.Net }
func (h *Host) Mux() protocol.Switch             { return nil }
func (h *Host) ConnManager() connmgr.ConnManager { return connmgr.NullConnMgr{} }
func (h *Host) EventBus() event.Bus {
	if h.BusOverride != nil {
		return h.BusOverride
	}
	return h.bus
}

func (h *Host) Addrs() []ma.Multiaddr {
	h.mu.Lock()
	defer h.mu.Unlock()
	return append([]ma.Multiaddr(nil), h.addrs...)
}

// SetAddrs changes the advertised addresses.
func (h *Host) SetAddrs(a []ma.Multiaddr) {
	h.mu.Lock()
	h.addrs = append([]ma.Multiaddr(nil), a...)
	h.mu.Unlock()
}

func (h *Host) Connect(ctx context.Context, pi peer.AddrInfo) error {
	if len(pi.Addrs) > 0 {
		h.ps.AddAddrs(pi.ID, pi.Addrs, peerstore.TempAddrTTL)
	}
	_, err := h.Net.DialPeer(ctx, pi.ID)
	return err
}

func (h *Host) SetStreamHandler(pid protocol.ID, handler network.StreamHandler) {
	h.mu.Lock()
	h.handlers[pid] = handler
	h.HandlerLg = append(h.HandlerLg, HandlerEvent{Seq: h.Seq.Add(1), Set: true, Proto: pid})
	h.mu.Unlock()
}

func (h *Host) SetStreamHandlerMatch(pid protocol.ID, _ func(protocol.ID) bool, handler network.StreamHandler) {
	h.SetStreamHandler(pid, handler)
}

func (h *Host) RemoveStreamHandler(pid protocol.ID) {
	h.mu.Lock()
	delete(h.handlers, pid)
	h.HandlerLg = append(h.HandlerLg, HandlerEvent{Seq: h.Seq.Add(1), Set: false, Proto: pid})
	h.mu.Unlock()
}

// Handler returns the handler currently registered for a protocol (nil if none): this is
// the "host protocol list" of the fake host.
func (h *Host) Handler(pid protocol.ID) network.StreamHandler {
	h.mu.Lock()
	defer h.mu.Unlock()
	return h.handlers[pid]
}

// Protocols lists the protocols with a registered handler.
func (h *Host) Protocols() []protocol.ID {
	h.mu.Lock()
	defer h.mu.Unlock()
	var out []protocol.ID
	for p := range h.handlers {
		out = append(out, p)
	}
	sort.Slice(out, func(i, j int) bool { return out[i] < out[j] })
	return out
}

func (h *Host) NewStream(ctx context.Context, p peer.ID, pids ...protocol.ID) (network.Stream, error) {
	if h.StreamFn == nil {
		return nil, errors.New("vsim: host has no StreamFn")
	}
	return h.StreamFn(ctx, p, pids)
}

func (h *Host) Close() error {
	h.mu.Lock()
	h.closed = true
	h.mu.Unlock()
	return h.ps.Close()
}

// DialLog returns a copy of the dial log.
func (h *Host) DialLog() []DialEvent {
	h.mu.Lock()
	defer h.mu.Unlock()
	return append([]DialEvent(nil), h.Dials...)
}

// ---- network -----------------------------------------------------------------------------

// Network is a fake network.Network whose connection state is driven by the monitor.
type Network struct {
	h         *Host
	mu        sync.Mutex
	conns     map[peer.ID]*Conn
	notifiees []network.Notifiee
	connSeq   int
	// ConnsDelay (ns): virtual time Conns() takes before it answers (0: instantaneous)
	ConnsDelay atomic.Int64
}

var _ network.Network = (*Network)(nil)

func (n *Network) Peerstore() peerstore.Peerstore { return n.h.ps }
func (n *Network) LocalPeer() peer.ID             { return n.h.id }
func (n *Network) Close() error                   { return nil }
func (n *Network) SetStreamHandler(network.StreamHandler) {
}
func (n *Network) NewStream(ctx context.Context, p peer.ID) (network.Stream, error) {
	return n.h.NewStream(ctx, p)
}
func (n *Network) Listen(...ma.Multiaddr) error                      { return nil }
func (n *Network) ListenAddresses() []ma.Multiaddr                   { return n.h.Addrs() }
func (n *Network) InterfaceListenAddresses() ([]ma.Multiaddr, error) { return n.h.Addrs(), nil }
func (n *Network) ResourceManager() network.ResourceManager          { return &network.NullResourceManager{} }
func (n *Network) CanDial(peer.ID, ma.Multiaddr) bool                { return true }

func (n *Network) Notify(f network.Notifiee) {
	n.mu.Lock()
	n.notifiees = append(n.notifiees, f)
	n.mu.Unlock()
}

func (n *Network) StopNotify(f network.Notifiee) {
	n.mu.Lock()
	for i, x := range n.notifiees {
		if x == f {
			n.notifiees = append(n.notifiees[:i], n.notifiees[i+1:]...)
			break
		}
	}
	n.mu.Unlock()
}

// NumNotifiees reports how many notifiees are registered (leak oracle).
func (n *Network) NumNotifiees() int {
	n.mu.Lock()
	defer n.mu.Unlock()
	return len(n.notifiees)
}

func (n *Network) Connectedness(p peer.ID) network.Connectedness {
	n.mu.Lock()
	defer n.mu.Unlock()
	if c, ok := n.conns[p]; ok && !c.closed {
		return network.Connected
	}
	return network.NotConnected
}

func (n *Network) Peers() []peer.ID {
	n.mu.Lock()
	defer n.mu.Unlock()
	var out []peer.ID
	for p, c := range n.conns {
		if !c.closed {
			out = append(out, p)
		}
	}
	sort.Slice(out, func(i, j int) bool { return out[i] < out[j] })
	return out
}

// Unlist removes the connection to p from the network's connection list without closing it or its streams: the
// window of a connection that is being torn down (a swarm removes the connection from its list first and resets
// its streams last), during which Conns() no longer reports streams that are still being served.
func (n *Network) Unlist(p peer.ID) {
	n.mu.Lock()
	delete(n.conns, p)
	n.mu.Unlock()
}

func (n *Network) Conns() []network.Conn {
	if d := time.Duration(n.ConnsDelay.Load()); d > 0 {
		time.Sleep(d) // a busy host: enumerating the connections takes time
	}
	n.mu.Lock()
	defer n.mu.Unlock()
	var out []network.Conn
	for _, c := range n.conns {
		if !c.closed {
			out = append(out, c)
		}
	}
	return out
}

func (n *Network) ConnsToPeer(p peer.ID) []network.Conn {
	n.mu.Lock()
	defer n.mu.Unlock()
	if c, ok := n.conns[p]; ok && !c.closed {
		return []network.Conn{c}
	}
	return nil
}

// DialPeer connects to p following Host.DialFn; records the attempt.
func (n *Network) DialPeer(ctx context.Context, p peer.ID) (network.Conn, error) {
	n.mu.Lock()
	if c, ok := n.conns[p]; ok && !c.closed {
		n.mu.Unlock()
		return c, nil
	}
	n.mu.Unlock()
	ev := DialEvent{Seq: n.h.Seq.Add(1), Peer: p, Start: time.Now()}
	var err error
	if p == n.h.id {
		err = errors.New("dial to self attempted")
	} else if n.h.DialFn != nil {
		err = n.h.DialFn(ctx, p)
	}
	if err == nil && ctx.Err() != nil {
		err = ctx.Err()
	}
	ev.End, ev.EndSeq = time.Now(), n.h.Seq.Add(1)
	if err != nil {
		ev.Err = err.Error()
	}
	if ce := ctx.Err(); ce != nil {
		ev.CtxErr = ce.Error()
	}
	n.h.mu.Lock()
	n.h.Dials = append(n.h.Dials, ev)
	n.h.mu.Unlock()
	if err != nil {
		return nil, err
	}
	return n.AddConn(p, network.DirOutbound, nil, false), nil
}

// AddConn marks p as connected (emitting no event). remote may be nil (RemoteAddrFn is
// consulted then).
func (n *Network) AddConn(p peer.ID, dir network.Direction, remote ma.Multiaddr, emit bool) *Conn {
	n.mu.Lock()
	if c, ok := n.conns[p]; ok && !c.closed {
		n.mu.Unlock()
		return c
	}
	if remote == nil && n.h.RemoteAddrFn != nil {
		remote = n.h.RemoteAddrFn(p)
	}
	n.connSeq++
	c := &Conn{n: n, remote: p, raddr: remote, dir: dir, id: fmt.Sprintf("c%d", n.connSeq), opened: time.Now()}
	n.conns[p] = c
	n.mu.Unlock()
	if emit {
		n.EmitConnectedness(p, network.Connected)
	}
	return c
}

func (n *Network) ClosePeer(p peer.ID) error {
	n.Disconnect(p, true)
	return nil
}

// Disconnect drops the connection to p, resetting its streams; optionally emits the
// connectedness event the swarm would emit.
func (n *Network) Disconnect(p peer.ID, emit bool) {
	n.mu.Lock()
	c, ok := n.conns[p]
	if ok {
		delete(n.conns, p)
	}
	n.mu.Unlock()
	if !ok {
		return
	}
	c.Close()
	if emit {
		n.EmitConnectedness(p, network.NotConnected)
	}
}

// EmitConnectedness publishes EvtPeerConnectednessChanged on the host's bus.
func (n *Network) EmitConnectedness(p peer.ID, c network.Connectedness) {
	em, err := n.h.bus.Emitter(new(event.EvtPeerConnectednessChanged))
	if err != nil {
		return
	}
	em.Emit(event.EvtPeerConnectednessChanged{Peer: p, Connectedness: c})
	em.Close()
}

// Emit publishes any event value on the host's bus (identification, protocols, reachability…).
func (h *Host) Emit(evt any) error {
	var em event.Emitter
	var err error
	switch e := evt.(type) {
	case event.EvtPeerIdentificationCompleted:
		if em, err = h.bus.Emitter(new(event.EvtPeerIdentificationCompleted)); err == nil {
			err = em.Emit(e)
		}
	case event.EvtPeerProtocolsUpdated:
		if em, err = h.bus.Emitter(new(event.EvtPeerProtocolsUpdated)); err == nil {
			err = em.Emit(e)
		}
	case event.EvtLocalReachabilityChanged:
		if em, err = h.bus.Emitter(new(event.EvtLocalReachabilityChanged)); err == nil {
			err = em.Emit(e)
		}
	case event.EvtLocalAddressesUpdated:
		if em, err = h.bus.Emitter(new(event.EvtLocalAddressesUpdated)); err == nil {
			err = em.Emit(e)
		}
	case event.EvtPeerConnectednessChanged:
		if em, err = h.bus.Emitter(new(event.EvtPeerConnectednessChanged)); err == nil {
			err = em.Emit(e)
		}
	default:
		return fmt.Errorf("vsim: unsupported event %T", evt)
	}
	if em != nil {
		em.Close()
	}
	return err
}

// ---- conn --------------------------------------------------------------------------------

// Conn is a fake network.Conn.
type Conn struct {
	n       *Network
	remote  peer.ID
	raddr   ma.Multiaddr
	dir     network.Direction
	id      string
	opened  time.Time
	mu      sync.Mutex
	streams []*Stream
	closed  bool
}

var _ network.Conn = (*Conn)(nil)

func (c *Conn) Close() error {
	c.mu.Lock()
	c.closed = true
	ss := append([]*Stream(nil), c.streams...)
	c.mu.Unlock()
	for _, s := range ss {
		s.Reset()
	}
	return nil
}
func (c *Conn) CloseWithError(network.ConnErrorCode) error { return c.Close() }
func (c *Conn) LocalPeer() peer.ID                         { return c.n.h.id }
func (c *Conn) RemotePeer() peer.ID                        { return c.remote }
func (c *Conn) RemotePublicKey() ic.PubKey                 { return nil }
func (c *Conn) ConnState() network.ConnectionState         { return network.ConnectionState{} }
func (c *Conn) LocalMultiaddr() ma.Multiaddr {
	if a := c.n.h.Addrs(); len(a) > 0 {
		return a[0]
	}
	return nil
}
func (c *Conn) RemoteMultiaddr() ma.Multiaddr { return c.raddr }
func (c *Conn) Stat() network.ConnStats {
	c.mu.Lock()
	defer c.mu.Unlock()
	return network.ConnStats{Stats: network.Stats{Direction: c.dir, Opened: c.opened}, NumStreams: len(c.streams)}
}
func (c *Conn) Scope() network.ConnScope { return &network.NullScope{} }
func (c *Conn) ID() string               { return c.id }
func (c *Conn) NewStream(ctx context.Context) (network.Stream, error) {
	return nil, errors.New("vsim: Conn.NewStream unsupported")
}
func (c *Conn) GetStreams() []network.Stream {
	c.mu.Lock()
	defer c.mu.Unlock()
	var out []network.Stream
	for _, s := range c.streams {
		if !s.Dead() {
			out = append(out, s)
		}
	}
	return out
}
func (c *Conn) IsClosed() bool {
	c.mu.Lock()
	defer c.mu.Unlock()
	return c.closed
}
func (c *Conn) As(any) bool { return false }

func (c *Conn) attach(s *Stream) {
	c.mu.Lock()
	c.streams = append(c.streams, s)
	c.mu.Unlock()
}

// NewInboundStream creates a stream from remote peer p to this host on protocol proto and
// returns both ends: local (to hand to the registered handler) and remote (played by the
// monitor). The connection is created if needed.
func (h *Host) NewInboundStream(p peer.ID, proto protocol.ID) (local *Stream, remote *End) {
	// stream direction is independent of connection direction: for half of the peers (by id parity) the
	// connection that carries their inbound streams was dialed by this host
	dir := network.DirInbound
	if len(p) > 0 && p[len(p)-1]&1 == 1 {
		dir = network.DirOutbound
	}
	c := h.Net.AddConn(p, dir, nil, false)
	return newStreamPair(c, network.DirInbound, proto)
}

// NewOutboundStream creates a stream from this host to remote peer p (for StreamFn).
func (h *Host) NewOutboundStream(p peer.ID, proto protocol.ID) (local *Stream, remote *End) {
	c := h.Net.AddConn(p, network.DirOutbound, nil, false)
	return newStreamPair(c, network.DirOutbound, proto)
}
