//go:build verif

package vsim

// Helpers for monitors that run several DHT instances (several Sims) over ONE fake host — the
// dual DHT (C15) — and for monitors that need to see every address written to the peerstore.

import (
	"context"
	"errors"
	"fmt"
	"sync"
	"time"

	"github.com/libp2p/go-libp2p/core/peer"
	"github.com/libp2p/go-libp2p/core/peerstore"
	ma "github.com/multiformats/go-multiaddr"
)

// ErrNoAddresses mirrors the swarm's refusal to dial a peer it has no address for.
var ErrNoAddresses = errors.New("vsim: no addresses for peer")

// CombinedDial returns a Host.DialFn for a host shared by several Sims (NewSim installs the
// dial function of the last Sim created: install this one afterwards). The dial behaviour of a
// peer is that of the first Sim that knows it. With needAddrs the dial fails, like a real
// swarm's, when the host's peerstore holds no address for the peer.
func CombinedDial(h *Host, needAddrs bool, sims ...*Sim) func(ctx context.Context, p peer.ID) error {
	return func(ctx context.Context, p peer.ID) error {
		if needAddrs && len(h.Peerstore().Addrs(p)) == 0 {
			return ErrNoAddresses
		}
		for _, s := range sims {
			if s.Peer(p) != nil {
				return s.dial(ctx, p)
			}
		}
		return fmt.Errorf("vsim: no route to %s", shortID(p))
	}
}

// AddrWrite is one address-book write observed by a LogPeerstore.
type AddrWrite struct {
	Seq   int64
	VT    time.Time
	Op    string // AddAddr | AddAddrs | SetAddr | SetAddrs
	Peer  peer.ID
	Addrs []ma.Multiaddr
	TTL   time.Duration
}

// LogPeerstore wraps a peerstore and records every address written to it.
type LogPeerstore struct {
	peerstore.Peerstore
	h   *Host
	mu  sync.Mutex
	log []AddrWrite
}

func (l *LogPeerstore) rec(op string, p peer.ID, addrs []ma.Multiaddr, ttl time.Duration) {
	w := AddrWrite{Seq: l.h.Seq.Add(1), VT: time.Now(), Op: op, Peer: p, Addrs: append([]ma.Multiaddr(nil), addrs...), TTL: ttl}
	l.mu.Lock()
	l.log = append(l.log, w)
	l.mu.Unlock()
}

func (l *LogPeerstore) AddAddr(p peer.ID, a ma.Multiaddr, ttl time.Duration) {
	l.rec("AddAddr", p, []ma.Multiaddr{a}, ttl)
	l.Peerstore.AddAddr(p, a, ttl)
}

func (l *LogPeerstore) AddAddrs(p peer.ID, as []ma.Multiaddr, ttl time.Duration) {
	l.rec("AddAddrs", p, as, ttl)
	l.Peerstore.AddAddrs(p, as, ttl)
}

func (l *LogPeerstore) SetAddr(p peer.ID, a ma.Multiaddr, ttl time.Duration) {
	l.rec("SetAddr", p, []ma.Multiaddr{a}, ttl)
	l.Peerstore.SetAddr(p, a, ttl)
}

func (l *LogPeerstore) SetAddrs(p peer.ID, as []ma.Multiaddr, ttl time.Duration) {
	l.rec("SetAddrs", p, as, ttl)
	l.Peerstore.SetAddrs(p, as, ttl)
}

// Writes returns a copy of the address-write log.
func (l *LogPeerstore) Writes() []AddrWrite {
	l.mu.Lock()
	defer l.mu.Unlock()
	return append([]AddrWrite(nil), l.log...)
}

// NewLoggedHost creates a fake host whose peerstore records every address written to it
// (stamped from the host's sequence counter).
func NewLoggedHost(id peer.ID, addrs ...ma.Multiaddr) (*Host, *LogPeerstore) {
	h := NewHost(id, addrs...)
	l := &LogPeerstore{Peerstore: h.ps, h: h}
	h.ps = l
	return h, l
}
