//go:build verif

package vsim

// Stream-level face of the simulation: the same scripted peers, reached through host.NewStream instead of the
// MessageSender interface, so that the DHT's own message sender (internal/net: framing, per-peer lock, read
// timeout, single retry) sits between the operation and the simulated peer.

import (
	"context"
	"errors"
	"sync"

	"github.com/libp2p/go-libp2p/core/network"
	"github.com/libp2p/go-libp2p/core/peer"
	"github.com/libp2p/go-libp2p/core/protocol"
	"google.golang.org/protobuf/proto"

	pb "github.com/libp2p/go-libp2p-kad-dht/pb"
)

// StreamFn returns a function for Host.StreamFn: it dials like the message-sender face does and serves the remote
// end of every stream with the peer's script (Delay, Err = stream reset, Silent = the request is swallowed and the
// stream stays open, Mutate / Override as usual). Requests and replies are logged like those of the other face.
func (s *Sim) StreamFn() func(ctx context.Context, p peer.ID, protos []protocol.ID) (network.Stream, error) {
	return func(ctx context.Context, p peer.ID, protos []protocol.ID) (network.Stream, error) {
		if err := ctx.Err(); err != nil {
			return nil, err
		}
		if s.H.Net.Connectedness(p) != network.Connected {
			if _, err := s.H.Net.DialPeer(ctx, p); err != nil {
				return nil, err
			}
		}
		sp := s.Peer(p)
		if sp == nil {
			return nil, errors.New("vsim: no such peer")
		}
		sp.mu.Lock()
		dead := sp.Dead
		sp.mu.Unlock()
		if dead {
			return nil, errors.New("vsim: stream reset (dead peer)")
		}
		// opening a stream costs a round trip (protocol negotiation); a caller whose context ends meanwhile gets its error
		if f := s.StreamOpenDelay; f != nil {
			if err := sleepCtx(ctx, f(p)); err != nil {
				return nil, err
			}
		}
		var pid protocol.ID
		if len(protos) > 0 {
			pid = protos[0]
		}
		local, remote := s.H.NewOutboundStream(p, pid)
		streamEndsMu.Lock()
		streamEnds[s] = append(streamEnds[s], remote)
		streamEndsMu.Unlock()
		go s.serveStream(sp, remote)
		return local, nil
	}
}

var (
	streamEndsMu sync.Mutex
	streamEnds   = map[*Sim][]*End{}
)

// CloseStreams resets every stream served through StreamFn (to be called before the bubble ends: the servers of
// idle streams wait for the next request).
func (s *Sim) CloseStreams() {
	streamEndsMu.Lock()
	ends := streamEnds[s]
	delete(streamEnds, s)
	streamEndsMu.Unlock()
	for _, e := range ends {
		e.Reset()
	}
}

func (s *Sim) serveStream(sp *SimPeer, e *End) {
	for {
		var req pb.Message
		if err := e.ReadMsg(&req); err != nil {
			return
		}
		sp.mu.Lock()
		n := sp.cnt
		sp.cnt++
		script := sp.Script
		sp.mu.Unlock()
		ev := s.record(Event{Kind: EvRequest, Peer: sp.ID, Type: req.GetType(), Key: req.GetKey(), Msg: proto.Clone(&req).(*pb.Message)})
		var r Reply
		if script != nil {
			r = script(n, &req)
		}
		if r.Silent {
			continue // swallowed: the stream stays open, nothing is ever written
		}
		if r.Delay > 0 {
			if err := sleepCtx(context.Background(), r.Delay); err != nil {
				return
			}
		}
		if r.Err != nil {
			s.record(Event{Kind: EvReply, ReqSeq: ev.Seq, Peer: sp.ID, Type: req.GetType(), Key: req.GetKey(), Err: r.Err.Error()})
			e.Reset()
			return
		}
		switch req.GetType() {
		case pb.Message_PUT_VALUE:
			sp.mu.Lock()
			if rec := req.GetRecord(); rec != nil {
				sp.GotPuts = append(sp.GotPuts, rec)
			}
			sp.mu.Unlock()
		case pb.Message_ADD_PROVIDER:
			sp.mu.Lock()
			sp.GotProvs = append(sp.GotProvs, proto.Clone(&req).(*pb.Message))
			sp.mu.Unlock()
			continue // no reply
		}
		var resp *pb.Message
		switch {
		case r.OverrideNil:
			continue
		case r.Override != nil:
			resp = proto.Clone(r.Override).(*pb.Message)
		default:
			resp = s.honest(sp, &req)
			if r.Mutate != nil {
				r.Mutate(&req, resp)
			}
		}
		s.record(Event{Kind: EvReply, ReqSeq: ev.Seq, Peer: sp.ID, Type: req.GetType(), Key: req.GetKey(), Msg: resp})
		if err := e.WriteMsg(resp); err != nil {
			return
		}
	}
}
