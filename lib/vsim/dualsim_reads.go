//go:build verif

package vsim

// PeerInfo read hook for LogPeerstore (C15 audit): the inner answers of dual.FindPeer are the
// PeerInfo reads IpfsDHT.FindPeer / FindLocal return, so a monitor that sees those reads knows
// both inner answers exactly. Kept in its own file; the hook table is package-level so that
// LogPeerstore itself (dualsim.go) stays untouched.

import (
	"sync"

	"github.com/libp2p/go-libp2p/core/peer"
)

var peerInfoHooks sync.Map // *LogPeerstore -> func(peer.ID, peer.AddrInfo)

// SetPeerInfoHook installs (or, with nil, removes) a function called with the result of every
// PeerInfo read on this peerstore, on the reading goroutine.
func (l *LogPeerstore) SetPeerInfoHook(f func(p peer.ID, ai peer.AddrInfo)) {
	if f == nil {
		peerInfoHooks.Delete(l)
		return
	}
	peerInfoHooks.Store(l, f)
}

var peerInfoPreHooks sync.Map // *LogPeerstore -> func(peer.ID)

// SetPeerInfoPreHook installs (or removes) a function called before every PeerInfo read, on the reading goroutine
// (it may wait: the read happens when it returns).
func (l *LogPeerstore) SetPeerInfoPreHook(f func(p peer.ID)) {
	if f == nil {
		peerInfoPreHooks.Delete(l)
		return
	}
	peerInfoPreHooks.Store(l, f)
}

func (l *LogPeerstore) PeerInfo(p peer.ID) peer.AddrInfo {
	if f, ok := peerInfoPreHooks.Load(l); ok {
		f.(func(peer.ID))(p)
	}
	ai := l.Peerstore.PeerInfo(p)
	if f, ok := peerInfoHooks.Load(l); ok {
		f.(func(peer.ID, peer.AddrInfo))(p, ai)
	}
	return ai
}
