//go:build verif

package vsim

import (
	"bytes"
	"context"
	"crypto/sha256"
	"encoding/binary"
	"errors"
	"fmt"
	"math/rand"
	"sort"
	"sync"
	"sync/atomic"
	"time"

	recpb "github.com/libp2p/go-libp2p-record/pb"
	"github.com/libp2p/go-libp2p/core/host"
	"github.com/libp2p/go-libp2p/core/network"
	"github.com/libp2p/go-libp2p/core/peer"
	"github.com/libp2p/go-libp2p/core/protocol"
	ma "github.com/multiformats/go-multiaddr"
	"google.golang.org/protobuf/proto"

	pb "github.com/libp2p/go-libp2p-kad-dht/pb"
)

// ---- identifiers and distances (independent of go-libp2p-kbucket) --------------------------

// PeerID returns the i-th simulated peer id: multihash header 0x12 0x20 ‖ sha256("vsim-peer" ‖ ns ‖ i).
func PeerID(ns string, i int) peer.ID {
	var b [8]byte
	binary.BigEndian.PutUint64(b[:], uint64(i))
	h := sha256.Sum256(append([]byte("vsim-peer/"+ns+"/"), b[:]...))
	return peer.ID(append([]byte{0x12, 0x20}, h[:]...))
}

// KadID is the Kademlia identifier of a byte string (peer id bytes or key): sha256.
func KadID(b []byte) [32]byte { return sha256.Sum256(b) }

// Dist returns the XOR distance between two Kademlia identifiers (big-endian).
func Dist(a, b [32]byte) [32]byte {
	var d [32]byte
	for i := range d {
		d[i] = a[i] ^ b[i]
	}
	return d
}

// CmpDist compares the distances of a and b to the target.
func CmpDist(target, a, b [32]byte) int {
	da, db := Dist(target, a), Dist(target, b)
	return bytes.Compare(da[:], db[:])
}

// CPL is the common prefix length of two identifiers.
func CPL(a, b [32]byte) int {
	for i := range a {
		if x := a[i] ^ b[i]; x != 0 {
			n := 0
			for m := byte(0x80); m != 0 && x&m == 0; m >>= 1 {
				n++
			}
			return i*8 + n
		}
	}
	return 256
}

// SortByDist sorts peers by ascending XOR distance of their Kademlia id to key's.
func SortByDist(key []byte, peers []peer.ID) []peer.ID {
	t := KadID(key)
	out := append([]peer.ID(nil), peers...)
	ids := make(map[peer.ID][32]byte, len(out))
	for _, p := range out {
		ids[p] = KadID([]byte(p))
	}
	sort.Slice(out, func(i, j int) bool { return CmpDist(t, ids[out[i]], ids[out[j]]) < 0 })
	return out
}

// Nearest returns the n peers nearest to key.
func Nearest(key []byte, peers []peer.ID, n int) []peer.ID {
	s := SortByDist(key, peers)
	if len(s) > n {
		s = s[:n]
	}
	return s
}

// ---- log -----------------------------------------------------------------------------------

// Event kinds in the simulation log.
const (
	EvRequest  = "req"  // request handed to the sender
	EvReply    = "rep"  // reply (or error) returned to the caller
	EvMessage  = "msg"  // SendMessage (no reply)
	EvDisconn  = "disc" // OnDisconnect
)

// Event is one entry of the sender log.
type Event struct {
	Seq     int64
	ReqSeq  int64 // for replies: Seq of the request
	VT      time.Time
	Kind    string
	Peer    peer.ID
	Type    pb.Message_MessageType
	Key     []byte
	Err     string
	CtxErr  string    // ctx.Err() at return time
	PastDl  bool      // returned at/after the deadline of the ctx it was given
	Closer  []peer.ID // reply: closer peers actually sent (in order)
	Provs   []peer.ID // reply: provider peers actually sent
	Record  *recpb.Record
	Msg     *pb.Message // request message (requests/messages), reply message (replies)
}

// ---- simulated peers -------------------------------------------------------------------------

// Reply tells the sender how a peer reacts to one request.
type Reply struct {
	Delay    time.Duration              // wait before answering (honours ctx)
	DialFail bool                       // connection attempt fails (if not connected)
	Err      error                      // fail the request with this error after Delay
	Silent   bool                       // never answer: the request fails at ctx end or after ReadTimeout
	Mutate   func(req, resp *pb.Message) // adversarial tweak of the honest answer
	Override *pb.Message                // answer with exactly this message (nil allowed via OverrideNil)
	OverrideNil bool
}

// SimPeer is one simulated remote peer.
type SimPeer struct {
	ID        peer.ID
	Addrs     []ma.Multiaddr
	Known     []peer.ID // knowledge: the peers it can refer to
	Values    map[string]*recpb.Record
	Providers map[string][]peer.AddrInfo
	// Script decides the reaction to each request (nil: honest, no delay). n counts the
	// requests this peer has received so far (0-based).
	Script func(n int, req *pb.Message) Reply
	Dead   bool // dial fails, requests fail

	mu  sync.Mutex
	cnt int
	// what the peer received (store RPCs)
	GotPuts  []*recpb.Record
	GotProvs []*pb.Message
}

// Sim is a network of simulated peers and the message sender that reaches them.
type Sim struct {
	// StreamOpenDelay, if set, is how long opening a stream to a peer takes (stream face only, see StreamFn).
	StreamOpenDelay func(p peer.ID) time.Duration
	H           *Host
	K           int // closer peers per honest answer
	ReadTimeout time.Duration
	mu          sync.Mutex
	peers       map[peer.ID]*SimPeer
	order       []peer.ID
	log         []Event
	// OnEvent, if set, is called (outside locks) for every log entry.
	OnEvent func(e Event)
	// Protocols the sender was built for (set by Builder).
	Protocols []protocol.ID
}

// ErrSimReadTimeout mirrors internal/net's read-timeout error text.
var ErrSimReadTimeout = errors.New("timed out reading response")

// NewSim creates an empty simulation around a fake host. The host's DialFn is installed.
func NewSim(h *Host, k int) *Sim {
	s := &Sim{H: h, K: k, ReadTimeout: 10 * time.Second, peers: map[peer.ID]*SimPeer{}}
	h.DialFn = s.dial
	return s
}

// Add registers a peer (its addresses are NOT put in the host's peerstore).
func (s *Sim) Add(p *SimPeer) *SimPeer {
	s.mu.Lock()
	defer s.mu.Unlock()
	if p.Values == nil {
		p.Values = map[string]*recpb.Record{}
	}
	if p.Providers == nil {
		p.Providers = map[string][]peer.AddrInfo{}
	}
	if _, ok := s.peers[p.ID]; !ok {
		s.order = append(s.order, p.ID)
	}
	s.peers[p.ID] = p
	return p
}

// Remove forgets a peer (dials and requests to it fail afterwards).
func (s *Sim) Remove(id peer.ID) {
	s.mu.Lock()
	delete(s.peers, id)
	for i, p := range s.order {
		if p == id {
			s.order = append(s.order[:i], s.order[i+1:]...)
			break
		}
	}
	s.mu.Unlock()
}

// Peer returns a simulated peer.
func (s *Sim) Peer(id peer.ID) *SimPeer {
	s.mu.Lock()
	defer s.mu.Unlock()
	return s.peers[id]
}

// IDs returns all peer ids in insertion order.
func (s *Sim) IDs() []peer.ID {
	s.mu.Lock()
	defer s.mu.Unlock()
	return append([]peer.ID(nil), s.order...)
}

// Log returns a copy of the event log.
func (s *Sim) Log() []Event {
	s.mu.Lock()
	defer s.mu.Unlock()
	return append([]Event(nil), s.log...)
}

func (s *Sim) record(e Event) Event {
	e.Seq = s.H.Seq.Add(1)
	e.VT = time.Now()
	s.mu.Lock()
	s.log = append(s.log, e)
	cb := s.OnEvent
	s.mu.Unlock()
	if cb != nil {
		cb(e)
	}
	return e
}

func (s *Sim) dial(ctx context.Context, p peer.ID) error {
	sp := s.Peer(p)
	if sp == nil {
		return fmt.Errorf("vsim: no route to %s", shortID(p))
	}
	sp.mu.Lock()
	dead := sp.Dead
	script := sp.Script
	n := sp.cnt
	sp.mu.Unlock()
	if dead {
		return errors.New("vsim: dial failed (dead peer)")
	}
	if script != nil {
		r := script(n, nil) // a nil request asks for the dial behaviour
		if r.Delay > 0 { // dials take time whether they succeed or fail; a cancelled dial returns the ctx error
			if err := sleepCtx(ctx, r.Delay); err != nil {
				return err
			}
		}
		if r.DialFail {
			if r.Delay > 0 {
				// like the swarm's own dial timeout: the error wraps context.DeadlineExceeded although the
				// caller's context is still live
				return fmt.Errorf("vsim: dial failed: failed to negotiate security protocol: %w", context.DeadlineExceeded)
			}
			return errors.New("vsim: dial failed: connection refused")
		}
	}
	return ctx.Err()
}

func sleepCtx(ctx context.Context, d time.Duration) error {
	if d <= 0 {
		return ctx.Err()
	}
	t := time.NewTimer(d)
	defer t.Stop()
	select {
	case <-t.C:
		return nil
	case <-ctx.Done():
		return ctx.Err()
	}
}

func shortID(p peer.ID) string {
	b := []byte(p)
	if len(b) > 6 {
		return fmt.Sprintf("%x", b[2:6])
	}
	return fmt.Sprintf("%x", b)
}

// Short renders a peer id compactly for logs.
func Short(p peer.ID) string { return shortID(p) }

// AddrInfoOf returns the address info a simulated peer would be referred with.
func (s *Sim) AddrInfoOf(id peer.ID) peer.AddrInfo {
	if p := s.Peer(id); p != nil {
		return peer.AddrInfo{ID: id, Addrs: p.Addrs}
	}
	return peer.AddrInfo{ID: id}
}

// HonestCloser returns what an honest server answers: the K nearest known peers to key,
// minus the requester.
func (s *Sim) HonestCloser(sp *SimPeer, key []byte, requester peer.ID) []peer.ID {
	var cand []peer.ID
	for _, p := range sp.Known {
		if p != requester && p != sp.ID {
			cand = append(cand, p)
		}
	}
	return Nearest(key, cand, s.K)
}

func (s *Sim) honest(sp *SimPeer, req *pb.Message) *pb.Message {
	resp := pb.NewMessage(req.GetType(), req.GetKey(), 0)
	addCloser := func() {
		ids := s.HonestCloser(sp, req.GetKey(), s.H.ID())
		infos := make([]peer.AddrInfo, len(ids))
		for i, id := range ids {
			infos[i] = s.AddrInfoOf(id)
		}
		resp.CloserPeers = pb.RawPeerInfosToPBPeers(infos)
	}
	switch req.GetType() {
	case pb.Message_FIND_NODE:
		addCloser()
	case pb.Message_GET_VALUE:
		sp.mu.Lock()
		if r, ok := sp.Values[string(req.GetKey())]; ok {
			resp.Record = proto.Clone(r).(*recpb.Record)
		}
		sp.mu.Unlock()
		addCloser()
	case pb.Message_GET_PROVIDERS:
		sp.mu.Lock()
		provs := append([]peer.AddrInfo(nil), sp.Providers[string(req.GetKey())]...)
		sp.mu.Unlock()
		resp.ProviderPeers = pb.RawPeerInfosToPBPeers(provs)
		addCloser()
	case pb.Message_PUT_VALUE:
		resp.Record = req.GetRecord()
	case pb.Message_PING:
	}
	return resp
}

func idsOf(ps []*pb.Message_Peer) []peer.ID {
	out := make([]peer.ID, 0, len(ps))
	for _, p := range ps {
		out = append(out, peer.ID(p.GetId()))
	}
	return out
}

// SendRequest implements pb.MessageSender.
func (s *Sim) SendRequest(ctx context.Context, p peer.ID, pmes *pb.Message) (*pb.Message, error) {
	req := s.record(Event{Kind: EvRequest, Peer: p, Type: pmes.GetType(), Key: pmes.GetKey(), Msg: pmes})
	resp, err := s.exchange(ctx, p, pmes, true)
	rep := Event{Kind: EvReply, ReqSeq: req.Seq, Peer: p, Type: pmes.GetType(), Key: pmes.GetKey(), Msg: resp}
	if err != nil {
		rep.Err = err.Error()
	} else if resp != nil {
		rep.Closer, rep.Provs, rep.Record = idsOf(resp.GetCloserPeers()), idsOf(resp.GetProviderPeers()), resp.GetRecord()
	}
	if ce := ctx.Err(); ce != nil {
		rep.CtxErr = ce.Error()
	}
	if dl, ok := ctx.Deadline(); ok && !time.Now().Before(dl) {
		rep.PastDl = true
	}
	s.record(rep)
	return resp, err
}

// SendMessage implements pb.MessageSender.
func (s *Sim) SendMessage(ctx context.Context, p peer.ID, pmes *pb.Message) error {
	req := s.record(Event{Kind: EvMessage, Peer: p, Type: pmes.GetType(), Key: pmes.GetKey(), Msg: pmes})
	_, err := s.exchange(ctx, p, pmes, false)
	rep := Event{Kind: EvReply, ReqSeq: req.Seq, Peer: p, Type: pmes.GetType(), Key: pmes.GetKey()}
	if err != nil {
		rep.Err = err.Error()
	}
	if ce := ctx.Err(); ce != nil {
		rep.CtxErr = ce.Error()
	}
	s.record(rep)
	return err
}

// OnDisconnect implements pb.MessageSenderWithDisconnect.
func (s *Sim) OnDisconnect(ctx context.Context, p peer.ID) {
	s.record(Event{Kind: EvDisconn, Peer: p})
}

func (s *Sim) exchange(ctx context.Context, p peer.ID, pmes *pb.Message, wantReply bool) (*pb.Message, error) {
	if err := ctx.Err(); err != nil {
		return nil, err
	}
	// like the real sender (host.NewStream), an RPC to a peer we are not connected to dials first
	if s.H.Net.Connectedness(p) != network.Connected {
		if _, err := s.H.Net.DialPeer(ctx, p); err != nil {
			return nil, err
		}
	}
	sp := s.Peer(p)
	if sp == nil {
		return nil, fmt.Errorf("vsim: no such peer %s", shortID(p))
	}
	sp.mu.Lock()
	n := sp.cnt
	sp.cnt++
	script, dead := sp.Script, sp.Dead
	sp.mu.Unlock()
	if dead {
		return nil, errors.New("vsim: stream reset (dead peer)")
	}
	var r Reply
	if script != nil {
		r = script(n, pmes)
	}
	if r.Silent {
		d := s.ReadTimeout
		if !wantReply {
			d = 0 // a fire-and-forget message to a silent peer is written and forgotten
		}
		if err := sleepCtx(ctx, d); err != nil {
			return nil, err
		}
		if wantReply {
			return nil, ErrSimReadTimeout
		}
	}
	if err := sleepCtx(ctx, r.Delay); err != nil {
		return nil, err
	}
	if r.Err != nil {
		return nil, r.Err
	}
	// the request reached the peer: store RPCs take effect
	switch pmes.GetType() {
	case pb.Message_PUT_VALUE:
		sp.mu.Lock()
		if rec := pmes.GetRecord(); rec != nil {
			sp.GotPuts = append(sp.GotPuts, proto.Clone(rec).(*recpb.Record))
		}
		sp.mu.Unlock()
	case pb.Message_ADD_PROVIDER:
		sp.mu.Lock()
		sp.GotProvs = append(sp.GotProvs, proto.Clone(pmes).(*pb.Message))
		sp.mu.Unlock()
	}
	if !wantReply {
		return nil, nil
	}
	if r.OverrideNil {
		return nil, nil
	}
	if r.Override != nil {
		return proto.Clone(r.Override).(*pb.Message), nil
	}
	resp := s.honest(sp, pmes)
	if r.Mutate != nil {
		r.Mutate(pmes, resp)
	}
	return resp, nil
}

// Builder returns the function to pass to dht.WithCustomMessageSender (and the crawler's
// and fullrt's equivalents).
func (s *Sim) Builder() func(h host.Host, protos []protocol.ID) pb.MessageSenderWithDisconnect {
	return func(_ host.Host, protos []protocol.ID) pb.MessageSenderWithDisconnect {
		s.Protocols = protos
		return s
	}
}

// ---- knowledge models ------------------------------------------------------------------------

// KnowFull makes every peer know every other peer.
func (s *Sim) KnowFull() {
	ids := s.IDs()
	for _, id := range ids {
		s.Peer(id).Known = ids
	}
}

// KnowKBucket gives each peer the k-bucket completeness hypothesis of C02: it knows every
// peer of each of its non-full buckets and k PRNG-chosen peers of each full one.
func (s *Sim) KnowKBucket(k int, r *rand.Rand) {
	ids := s.IDs()
	kad := make(map[peer.ID][32]byte, len(ids))
	for _, id := range ids {
		kad[id] = KadID([]byte(id))
	}
	for _, id := range ids {
		buckets := map[int][]peer.ID{}
		for _, o := range ids {
			if o != id {
				c := CPL(kad[id], kad[o])
				buckets[c] = append(buckets[c], o)
			}
		}
		var known []peer.ID
		cpls := make([]int, 0, len(buckets))
		for c := range buckets {
			cpls = append(cpls, c)
		}
		sort.Ints(cpls)
		for _, c := range cpls {
			b := buckets[c]
			if len(b) > k {
				r.Shuffle(len(b), func(i, j int) { b[i], b[j] = b[j], b[i] })
				b = b[:k]
			}
			known = append(known, b...)
		}
		s.Peer(id).Known = known
	}
}

// KnowSparse gives each peer `n` PRNG-chosen acquaintances.
func (s *Sim) KnowSparse(n int, r *rand.Rand) {
	ids := s.IDs()
	for _, id := range ids {
		perm := r.Perm(len(ids))
		var known []peer.ID
		for _, i := range perm {
			if ids[i] != id && len(known) < n {
				known = append(known, ids[i])
			}
		}
		s.Peer(id).Known = known
	}
}

// Counter is a tiny helper for unique values.
var Counter atomic.Int64
